"""C18 mutants: breaking edits (still compile) that each rule family must catch, and benign edits that must stay silent.
edits: (file, old text occurring exactly once, new text).  Based on /repo after the fix e3a3775 (F-key parse error);
the "orig" mutant restores the original defect."""
K = "src/keys.rs"
MUTANTS = [
    # ---------------- NAME-ROUNDTRIP / PRINT-PARSABLE ----------------
    {"id": "C18-debug-esc-renamed-unparsable", "prop": "C18", "expect": "NAME-ROUNDTRIP/KeyName::from_str/row:esc",
     "edits": [(K, 'KeyName::Esc => write!(f, "esc"),', 'KeyName::Esc => write!(f, "escp"),')]},
    {"id": "C18-from_str-left-up-swapped", "prop": "C18", "expect": "NAME-ROUNDTRIP/KeyName::from_str/row:",
     "edits": [(K, '"left" => KeyName::Left,\n            "up" => KeyName::Up,', '"left" => KeyName::Up,\n            "up" => KeyName::Left,')]},
    {"id": "C18-debug-pageup-prints-pagedown", "prop": "C18", "expect": "NAME-ROUNDTRIP",
     "edits": [(K, 'KeyName::PageUp => write!(f, "pageup"),', 'KeyName::PageUp => write!(f, "pagedown"),')]},
    {"id": "C18-debug-char-class-quoted", "prop": "C18", "expect": "NAME-ROUNDTRIP/KeyName::from_str/row:char:",
     "edits": [(K, "'a'..='z' | '0'..='9' => write!(f, \"{}\", c),", "'a'..='z' => write!(f, \"{}\", c),")]},
    {"id": "C18-fkey-template-prefix", "prop": "C18", "expect": "NAME-ROUNDTRIP/KeyName::from_str/row:F(n)",
     "edits": [(K, 'KeyName::F(index) => write!(f, "f{}", index),', 'KeyName::F(index) => write!(f, "F-{}", index),')]},
    {"id": "C18-fkey-bare-prefix-accepted", "prop": "C18", "expect": "bare-prefix",
     "edits": [(K, "f if f.starts_with('f')\n                && f.len() > 1\n                && string", "f if f.starts_with('f')\n                && string")]},
    {"id": "C18-benign-tab-leaves-parsable-domain", "prop": "C18", "benign": True,
     "edits": [(K, '"tab" => KeyName::Tab,', '"tab" => KeyName::Char(\'\\t\'),')],
     "note": "Char('\\t') prints as tab and parses back to Char('\\t'); KeyName::Tab merely leaves the parsable domain (noted, not a violation)"},
    # ---------------- MOD-ROUNDTRIP ----------------
    {"id": "C18-mod-debug-ctrl-renamed", "prop": "C18", "expect": "MOD-ROUNDTRIP",
     "edits": [(K, '(Self::CTRL, "ctrl"),', '(Self::CTRL, "control"),')]},
    {"id": "C18-mod-from_str-alt-sets-ctrl", "prop": "C18", "expect": "MOD-ROUNDTRIP",
     "edits": [(K, '"alt" => key_mod |= KeyMod::ALT,', '"alt" => key_mod |= KeyMod::CTRL,')]},
    {"id": "C18-mod-debug-drops-press", "prop": "C18", "expect": "MOD-ROUNDTRIP/Key::from_str/unprinted:press",
     "edits": [(K, '                (Self::PRESS, "press"),\n', '')]},
    {"id": "C18-mod-bits-overlap", "prop": "C18", "expect": "MOD-ROUNDTRIP/KeyMod/bits",
     "edits": [(K, "pub const META: Self = KeyMod { bits: 32 };", "pub const META: Self = KeyMod { bits: 48 };")]},
    # ---------------- SEPARATORS ----------------
    {"id": "C18-chord-display-separator", "prop": "C18", "expect": "SEPARATORS/KeyChord::Display/chord-separator",
     "edits": [(K, '                write!(f, " ")?;\n            }\n        }\n        Ok(())', '                write!(f, "_")?;\n            }\n        }\n        Ok(())')]},
    {"id": "C18-chord-from_str-separator", "prop": "C18", "expect": "chord-separator",
     "edits": [(K, ".split(' ')", ".split(',')")]},
    {"id": "C18-key-debug-separator", "prop": "C18", "expect": "SEPARATORS/Key::Debug/key-separator",
     "edits": [(K, 'write!(f, "{:?}+{:?}", self.mode, self.name)?;', 'write!(f, "{:?}-{:?}", self.mode, self.name)?;')]},
    {"id": "C18-mod-debug-separator", "prop": "C18", "expect": "modifier-separator",
     "edits": [(K, 'write!(f, "+{}", name)?;', 'write!(f, "|{}", name)?;')]},
    {"id": "C18-plus-becomes-a-key-char", "prop": "C18", "expect": "name-contains-separator",
     "edits": [(K, "'/' => write!(f, \"{}\", c),", "'/' | '+' => write!(f, \"{}\", c),"),
               (K, "'/' => KeyName::Char(c),", "'/' | '+' => KeyName::Char(c),")]},
    {"id": "C18-key-named-like-modifier", "prop": "C18", "expect": "key-name-is-modifier",
     "edits": [(K, 'KeyName::Insert => write!(f, "insert"),', 'KeyName::Insert => write!(f, "meta"),'),
               (K, '"insert" => KeyName::Insert,', '"meta" => KeyName::Insert,')]},
    # ---------------- SERDE-CHAIN ----------------
    {"id": "C18-serialize-not-display", "prop": "C18", "expect": "SERDE-CHAIN/KeyChord::serialize",
     "edits": [(K, "serializer.collect_str(self)", 'serializer.serialize_str(&format!("{:?}", self.keys()))')]},
    {"id": "C18-keyname-display-not-debug", "prop": "C18", "expect": "SERDE-CHAIN/KeyName::Display",
     "edits": [(K, "impl fmt::Display for KeyName {\n    fn fmt(&self, f: &mut fmt::Formatter<'_>) -> fmt::Result {\n        write!(f, \"{:?}\", self)",
                "impl fmt::Display for KeyName {\n    fn fmt(&self, f: &mut fmt::Formatter<'_>) -> fmt::Result {\n        write!(f, \"<{:?}>\", self)")]},
    {"id": "C18-chord-display-reversed", "prop": "C18", "expect": "SERDE-CHAIN/KeyChord::Display/iteration",
     "edits": [(K, "for (index, key) in self.keys().iter().enumerate() {", "for (index, key) in self.keys().iter().rev().enumerate() {")]},
    # ---------------- PANIC-SITE ----------------
    {"id": "C18-orig-fkey-expect", "prop": "C18", "expect": "PANIC-SITE/KeyName::from_str/_[..].parse().expect()",
     "edits": [(K, 'let index = string[1..]\n                    .parse()\n                    .map_err(|_| Error::ParseError("KeyName", string.to_string()))?;',
                'let index = string[1..].parse().expect("coding error");')],
     "note": "original defect: \"f99999999999999999999999\".parse::<KeyName>() panics"},
    {"id": "C18-unwrap-in-key-from_str", "prop": "C18", "expect": "PANIC-SITE/Key::from_str",
     "edits": [(K, '            _ => Err(Error::ParseError("Key", string.to_string())),\n        }\n    }\n}\n\n#[derive(Clone, PartialEq, Eq, Ord, PartialOrd, Hash)]',
                '            _ => Ok(Key::new(string.parse::<KeyName>().unwrap(), key_mod)),\n        }\n    }\n}\n\n#[derive(Clone, PartialEq, Eq, Ord, PartialOrd, Hash)]')]},
    {"id": "C18-slice-past-prefix", "prop": "C18", "expect": "PANIC-SITE/KeyName::from_str/_[..]",
     "edits": [(K, "&& string[1..].chars()", "&& string[2..].chars()")]},
    {"id": "C18-first-char-unguarded", "prop": "C18", "expect": "PANIC-SITE/KeyChord::from_str",
     "edits": [(K, "            .filter(|k| !k.is_empty())\n", "            .filter(|k| k.chars().next().unwrap() != '#')\n")]},
    {"id": "C18-unreachable-in-helper", "prop": "C18", "expect": "PANIC-SITE/Key::new",
     "edits": [(K, "    pub fn new(name: KeyName, mode: KeyMod) -> Self {\n        Self { name, mode }", "    pub fn new(name: KeyName, mode: KeyMod) -> Self {\n        if name.is_mouse() && mode.contains(KeyMod::CAPSLOCK) {\n            unreachable!()\n        }\n        Self { name, mode }")]},
    # ---------------- benign ----------------
    {"id": "C18-benign-debug-esc-as-escape", "prop": "C18", "benign": True,
     "edits": [(K, 'KeyName::Esc => write!(f, "esc"),', 'KeyName::Esc => write!(f, "escape"),')],
     "note": "from_str accepts both spellings, the round trip still holds"},
    {"id": "C18-benign-debug-capitalised", "prop": "C18", "benign": True,
     "edits": [(K, 'KeyName::Home => write!(f, "home"),', 'KeyName::Home => write!(f, "Home"),')],
     "note": "from_str lower-cases its input"},
    {"id": "C18-benign-rename-local", "prop": "C18", "benign": True,
     "edits": [(K, "cs if cs.chars().count() == 1 => {\n                let c = cs.chars().next().unwrap();", "single if single.chars().count() == 1 => {\n                let c = single.chars().next().unwrap();")]},
    {"id": "C18-benign-reorder-arms", "prop": "C18", "benign": True,
     "edits": [(K, '"left" => KeyName::Left,\n            "up" => KeyName::Up,', '"up" => KeyName::Up,\n            "left" => KeyName::Left,'),
               (K, '                (Self::SHIFT, "shift"),\n                (Self::ALT, "alt"),\n', '                (Self::ALT, "alt"),\n                (Self::SHIFT, "shift"),\n')]},
    {"id": "C18-benign-new-alias-and-modifier", "prop": "C18", "benign": True,
     "edits": [(K, '"enter" => KeyName::Enter,', '"enter" | "return" => KeyName::Enter,'),
               (K, '                (Self::CAPSLOCK, "capslock"),\n', '                (Self::CAPSLOCK, "capslock"),\n                (Self::NUMLOCK, "numlock"),\n'),
               (K, '"capslock" => key_mod |= KeyMod::CAPSLOCK,', '"capslock" => key_mod |= KeyMod::CAPSLOCK,\n                "numlock" => key_mod |= KeyMod::NUMLOCK,')]},
    {"id": "C18-benign-write_str-separator", "prop": "C18", "benign": True,
     "edits": [(K, '                write!(f, " ")?;\n            }\n        }\n        Ok(())', '                f.write_str(" ")?;\n            }\n        }\n        Ok(())')]},
    {"id": "C18-benign-new-key-both-sides", "prop": "C18", "benign": True,
     "edits": [(K, "    Backspace,\n    Char(char),", "    Backspace,\n    Menu,\n    Char(char),"),
               (K, 'KeyName::Backspace => write!(f, "backspace"),', 'KeyName::Backspace => write!(f, "backspace"),\n            KeyName::Menu => write!(f, "menu"),'),
               (K, '"backspace" => KeyName::Backspace,', '"backspace" => KeyName::Backspace,\n            "menu" => KeyName::Menu,')]},

    # ---------------- robustness: equivalent spellings (refactorings written by independent agents + own variations) ----------------
    {"id": "C18-benign-key-debug-early-return", "prop": "C18", "benign": True,
     "edits": [(K, '        if self.mode.is_empty() {\n            write!(f, "{:?}", self.name)?;\n        } else {\n            write!(f, "{:?}+{:?}", self.mode, self.name)?;\n        }\n        Ok(())',
                '        if self.mode.is_empty() {\n            return write!(f, "{:?}", self.name);\n        }\n        write!(f, "{:?}+{:?}", self.mode, self.name)')]},
    {"id": "C18-benign-key-debug-prefix-then-name", "prop": "C18", "benign": True,
     "edits": [(K, '        if self.mode.is_empty() {\n            write!(f, "{:?}", self.name)?;\n        } else {\n            write!(f, "{:?}+{:?}", self.mode, self.name)?;\n        }\n        Ok(())',
                '        if !self.mode.is_empty() {\n            write!(f, "{:?}+", self.mode)?;\n        }\n        write!(f, "{:?}", self.name)')]},
    {"id": "C18-benign-key-debug-match-bool", "prop": "C18", "benign": True,
     "edits": [(K, '        if self.mode.is_empty() {\n            write!(f, "{:?}", self.name)?;\n        } else {\n            write!(f, "{:?}+{:?}", self.mode, self.name)?;\n        }\n        Ok(())',
                '        match self.mode.is_empty() {\n            false => write!(f, "{:?}+{:?}", self.mode, self.name),\n            true => write!(f, "{:?}", self.name),\n        }')]},
    {"id": "C18-key-debug-prefix-dash", "prop": "C18", "expect": "SEPARATORS/Key::Debug/key-separator",
     "edits": [(K, '        if self.mode.is_empty() {\n            write!(f, "{:?}", self.name)?;\n        } else {\n            write!(f, "{:?}+{:?}", self.mode, self.name)?;\n        }\n        Ok(())',
                '        if !self.mode.is_empty() {\n            write!(f, "{:?}-", self.mode)?;\n        }\n        write!(f, "{:?}", self.name)')]},
    {"id": "C18-benign-chord-display-separator-before", "prop": "C18", "benign": True,
     "edits": [(K, '            write!(f, "{}", key)?;\n            if index + 1 < self.keys().len() {\n                write!(f, " ")?;\n            }\n',
                '            if index > 0 {\n                write!(f, " ")?;\n            }\n            write!(f, "{}", key)?;\n')]},
    {"id": "C18-benign-chord-from_str-early-return", "prop": "C18", "benign": True,
     "edits": [(K, '        if chord.is_empty() {\n            Err(Error::ParseError("Key", s.to_string()))\n        } else {\n            Ok(Self::new(chord))\n        }',
                '        if chord.is_empty() {\n            return Err(Error::ParseError("Key", s.to_string()));\n        }\n        Ok(Self::new(chord))')]},
    {"id": "C18-benign-key-from_str-map-ok_or_else", "prop": "C18", "benign": True,
     "edits": [(K, '        match key_name {\n            Some(key_name) => Ok(Key::new(key_name, key_mod)),\n            _ => Err(Error::ParseError("Key", string.to_string())),\n        }',
                '        key_name\n            .map(|key_name| Key::new(key_name, key_mod))\n            .ok_or_else(|| Error::ParseError("Key", string.to_string()))')]},
    {"id": "C18-benign-mod-debug-separator-first", "prop": "C18", "benign": True,
     "edits": [(K, '                    if first {\n                        first = false;\n                        write!(f, "{}", name)?;\n                    } else {\n                        write!(f, "+{}", name)?;\n                    }',
                '                    if !first {\n                        write!(f, "+")?;\n                    }\n                    first = false;\n                    write!(f, "{}", name)?;')]},
    {"id": "C18-benign-fkey-guard-flipped", "prop": "C18", "benign": True,
     "edits": [(K, "                && f.len() > 1\n", "                && 2 <= f.len()\n")]},
    {"id": "C18-benign-char-count-flipped", "prop": "C18", "benign": True,
     "edits": [(K, "            cs if cs.chars().count() == 1 => {", "            cs if 1 == cs.chars().count() => {")]},
    {"id": "C18-benign-serialize-to_string", "prop": "C18", "benign": True,
     "edits": [(K, "        serializer.collect_str(self)\n", "        serializer.serialize_str(&self.to_string())\n")]},
    {"id": "C18-benign-deserialize-parse", "prop": "C18", "benign": True,
     "edits": [(K, "        KeyChord::from_str(chord_str.as_ref()).map_err(serde::de::Error::custom)", "        chord_str.parse::<KeyChord>().map_err(serde::de::Error::custom)")]},
    # ---------------- KeyChord Display spelled differently (robustness round F2) ----------------
    {"id": 'C18-benign-chord-display-first-then-rest', "prop": "C18", "benign": True,
     "edits": [(K, '        for (index, key) in self.keys().iter().enumerate() {\n            write!(f, "{}", key)?;\n            if index + 1 < self.keys().len() {\n                write!(f, " ")?;\n            }\n        }\n', '        let mut keys = self.keys().iter();\n        if let Some(first) = keys.next() {\n            write!(f, "{}", first)?;\n        }\n        for key in keys {\n            write!(f, " ")?;\n            write!(f, "{}", key)?;\n        }\n')]},
    {"id": 'C18-benign-chord-display-hoisted-locals', "prop": "C18", "benign": True,
     "edits": [(K, '        for (index, key) in self.keys().iter().enumerate() {\n            write!(f, "{}", key)?;\n            if index + 1 < self.keys().len() {\n                write!(f, " ")?;\n            }\n        }\n', '        let keys = self.keys();\n        let count = keys.len();\n        for (index, key) in keys.iter().enumerate() {\n            write!(f, "{}", key)?;\n            if index + 1 < count {\n                write!(f, " ")?;\n            }\n        }\n')]},
    {"id": 'C18-benign-chord-display-try-for-each', "prop": "C18", "benign": True,
     "edits": [(K, '        for (index, key) in self.keys().iter().enumerate() {\n            write!(f, "{}", key)?;\n            if index + 1 < self.keys().len() {\n                write!(f, " ")?;\n            }\n        }\n', '        let count = self.keys().len();\n        self.keys().iter().enumerate().try_for_each(|(index, key)| {\n            write!(f, "{}", key)?;\n            if index + 1 < count {\n                write!(f, " ")?;\n            }\n            Ok(())\n        })?;\n')]},
    {"id": 'C18-benign-chord-display-while-let-peekable', "prop": "C18", "benign": True,
     "edits": [(K, '        for (index, key) in self.keys().iter().enumerate() {\n            write!(f, "{}", key)?;\n            if index + 1 < self.keys().len() {\n                write!(f, " ")?;\n            }\n        }\n', '        let mut keys = self.keys().iter().peekable();\n        while let Some(key) = keys.next() {\n            write!(f, "{}", key)?;\n            if keys.peek().is_some() {\n                f.write_str(" ")?;\n            }\n        }\n')]},
    {"id": 'C18-benign-chord-display-separator-helper', "prop": "C18", "benign": True,
     "edits": [(K, '        for (index, key) in self.keys().iter().enumerate() {\n            write!(f, "{}", key)?;\n            if index + 1 < self.keys().len() {\n                write!(f, " ")?;\n            }\n        }\n', '        fn write_gap(f: &mut fmt::Formatter<\'_>, needed: bool) -> fmt::Result {\n            if needed {\n                write!(f, " ")?;\n            }\n            Ok(())\n        }\n        for (index, key) in self.keys().iter().enumerate() {\n            write_gap(f, index > 0)?;\n            write!(f, "{}", key)?;\n        }\n')]},
    {"id": 'C18-chord-display-first-then-rest-other-separator', "prop": "C18", "expect": 'SEPARATORS/KeyChord::Display/chord-separator',
     "edits": [(K, '        for (index, key) in self.keys().iter().enumerate() {\n            write!(f, "{}", key)?;\n            if index + 1 < self.keys().len() {\n                write!(f, " ")?;\n            }\n        }\n', '        let mut keys = self.keys().iter();\n        if let Some(first) = keys.next() {\n            write!(f, "{}", first)?;\n        }\n        for key in keys {\n            write!(f, "-")?;\n            write!(f, "{}", key)?;\n        }\n')]},
    {"id": 'C18-chord-display-hoisted-reversed', "prop": "C18", "expect": 'SERDE-CHAIN/KeyChord::Display/iteration',
     "edits": [(K, '        for (index, key) in self.keys().iter().enumerate() {\n            write!(f, "{}", key)?;\n            if index + 1 < self.keys().len() {\n                write!(f, " ")?;\n            }\n        }\n', '        let mut keys = self.keys().iter().rev();\n        if let Some(first) = keys.next() {\n            write!(f, "{}", first)?;\n        }\n        for key in keys {\n            write!(f, " ")?;\n            write!(f, "{}", key)?;\n        }\n')]},
    {"id": 'C18-chord-display-rest-skips-one', "prop": "C18", "expect": 'SERDE-CHAIN/KeyChord::Display/iteration',
     "edits": [(K, '        for (index, key) in self.keys().iter().enumerate() {\n            write!(f, "{}", key)?;\n            if index + 1 < self.keys().len() {\n                write!(f, " ")?;\n            }\n        }\n', '        let mut keys = self.keys().iter();\n        if let Some(first) = keys.next() {\n            write!(f, "{}", first)?;\n        }\n        for key in keys.skip(1) {\n            write!(f, " ")?;\n            write!(f, "{}", key)?;\n        }\n')]},
    {"id": 'C18-chord-display-helper-other-separator', "prop": "C18", "expect": 'chord-separator',
     "edits": [(K, '        for (index, key) in self.keys().iter().enumerate() {\n            write!(f, "{}", key)?;\n            if index + 1 < self.keys().len() {\n                write!(f, " ")?;\n            }\n        }\n', '        fn write_gap(f: &mut fmt::Formatter<\'_>, needed: bool) -> fmt::Result {\n            if needed {\n                write!(f, "+")?;\n            }\n            Ok(())\n        }\n        for (index, key) in self.keys().iter().enumerate() {\n            write_gap(f, index > 0)?;\n            write!(f, "{}", key)?;\n        }\n')]},
    # ---------------- robustness round K6: modifier table in a helper, split_first printer, tuple-match single character ----------------
]
_MODS_OLD = ('            match attr.to_lowercase().as_ref() {\n                "alt" => key_mod |= KeyMod::ALT,\n                "ctrl" => key_mod |= KeyMod::CTRL,\n'
             '                "shift" => key_mod |= KeyMod::SHIFT,\n                "press" => key_mod |= KeyMod::PRESS,\n                "super" => key_mod |= KeyMod::SUPER,\n'
             '                "hyper" => key_mod |= KeyMod::HYPER,\n                "meta" => key_mod |= KeyMod::META,\n                "capslock" => key_mod |= KeyMod::CAPSLOCK,\n'
             '                name => match name.parse::<KeyName>() {\n')
_CHORD_STRUCT = '#[derive(Clone, PartialEq, Eq, Ord, PartialOrd, Hash)]\npub struct KeyChord {'


def _helper(ret_wrapped, alt="KeyMod::ALT", extra=""):
    rows = [("shift", "KeyMod::SHIFT"), ("alt", alt), ("ctrl", "KeyMod::CTRL"), ("super", "KeyMod::SUPER"), ("hyper", "KeyMod::HYPER"),
            ("meta", "KeyMod::META"), ("capslock", "KeyMod::CAPSLOCK"), ("press", "KeyMod::PRESS")]
    if ret_wrapped:
        body = "    Some(match attr {\n" + "".join('        "%s" => %s,\n' % r for r in rows) + extra + "        _ => return None,\n    })\n"
    else:
        body = "    match attr {\n" + "".join('        "%s" => Some(%s),\n' % r for r in rows) + extra + "        _ => None,\n    }\n"
    return "fn modifier_by_name(attr: &str) -> Option<KeyMod> {\n" + body + "}\n\n" + _CHORD_STRUCT


_MATCH_CALL = ('            let attr = attr.to_lowercase();\n            match modifier_by_name(&attr) {\n                Some(flag) => key_mod |= flag,\n'
               '                None => match attr.parse::<KeyName>() {\n')
_NAME_TAIL = ('                    Ok(name) => {\n                        if key_name.replace(name).is_some() {\n                            key_name.take();\n                            break;\n                        }\n                    }\n'
              '                    _ => break,\n                },\n            }\n')
_IFLET_LOOP = ('            let lowered = attr.to_lowercase();\n            if let Some(flag) = modifier_by_name(lowered.as_str()) {\n                key_mod = key_mod | flag;\n                continue;\n            }\n'
               '            match lowered.parse::<KeyName>() {\n                Ok(name) => {\n                    if key_name.replace(name).is_some() {\n                        key_name.take();\n                        break;\n                    }\n                }\n'
               '                _ => break,\n            }\n')
_CHORD_LOOP = ('        for (index, key) in self.keys().iter().enumerate() {\n            write!(f, "{}", key)?;\n            if index + 1 < self.keys().len() {\n                write!(f, " ")?;\n            }\n        }\n')
_ONE_CHAR_OLD = ("            cs if cs.chars().count() == 1 => {\n                let c = cs.chars().next().unwrap();\n                match c {\n"
                 "                    c @ 'a'..='z' | c @ '0'..='9' => KeyName::Char(c),\n"
                 "                    '`' | '-' | '=' | '[' | ']' | '\\\\' | ';' | ',' | '.' | '/' => KeyName::Char(c),\n"
                 '                    _ => return Err(Error::ParseError("KeyName", string.to_string())),\n                }\n            }\n'
                 '            _ => return Err(Error::ParseError("KeyName", string.to_string())),\n')


def _one_char(first="'a'..='z' | '0'..='9'", second_tail="None"):
    return ("            cs => {\n                let mut chars = cs.chars();\n                match (chars.next(), chars.next()) {\n"
            "                    (Some(c @ (%s)), None) => KeyName::Char(c),\n"
            "                    (Some(c @ ('`' | '-' | '=' | '[' | ']' | '\\\\' | ';' | ',' | '.' | '/')), %s) => KeyName::Char(c),\n"
            '                    _ => return Err(Error::ParseError("KeyName", string.to_string())),\n                }\n            }\n') % (first, second_tail)


MUTANTS += [
    {"id": "C18-benign-modifier-helper-some-match", "prop": "C18", "benign": True,
     "edits": [(K, _MODS_OLD, _MATCH_CALL), (K, _CHORD_STRUCT, _helper(True))]},
    {"id": "C18-benign-modifier-helper-arms-some", "prop": "C18", "benign": True,
     "edits": [(K, _MODS_OLD, _MATCH_CALL), (K, _CHORD_STRUCT, _helper(False))]},
    {"id": "C18-benign-modifier-helper-if-let-continue", "prop": "C18", "benign": True,
     "edits": [(K, _MODS_OLD + _NAME_TAIL, _IFLET_LOOP), (K, _CHORD_STRUCT, _helper(False))]},
    {"id": "C18-modifier-helper-alt-sets-ctrl", "prop": "C18", "expect": "MOD-ROUNDTRIP",
     "edits": [(K, _MODS_OLD, _MATCH_CALL), (K, _CHORD_STRUCT, _helper(True, alt="KeyMod::CTRL"))]},
    {"id": "C18-modifier-helper-shadows-key-name", "prop": "C18", "expect": "key-name-is-modifier",
     "edits": [(K, _MODS_OLD, _MATCH_CALL), (K, _CHORD_STRUCT, _helper(True, extra='        "tab" => KeyMod::CTRL,\n'))]},
    {"id": "C18-modifier-helper-flag-dropped", "prop": "C18", "expect": "MOD-ROUNDTRIP/ANCHOR",
     "edits": [(K, _MODS_OLD, _MATCH_CALL.replace("Some(flag) => key_mod |= flag", "Some(_flag) => key_mod |= KeyMod::EMPTY")), (K, _CHORD_STRUCT, _helper(True))]},
    {"id": "C18-benign-chord-display-split-first", "prop": "C18", "benign": True,
     "edits": [(K, _CHORD_LOOP, '        let Some((first, rest)) = self.keys().split_first() else {\n            return Ok(());\n        };\n        write!(f, "{}", first)?;\n'
                '        for key in rest {\n            write!(f, " ")?;\n            write!(f, "{}", key)?;\n        }\n')]},
    {"id": "C18-benign-chord-display-split-last", "prop": "C18", "benign": True,
     "edits": [(K, _CHORD_LOOP, '        if let Some((last, init)) = self.keys().split_last() {\n            for key in init.iter() {\n                write!(f, "{}", key)?;\n                f.write_str(" ")?;\n            }\n'
                '            write!(f, "{}", last)?;\n        }\n')]},
    {"id": "C18-chord-display-split-first-rest-first", "prop": "C18", "expect": "SERDE-CHAIN/KeyChord::Display/iteration",
     "edits": [(K, _CHORD_LOOP, '        let Some((first, rest)) = self.keys().split_first() else {\n            return Ok(());\n        };\n'
                '        for key in rest {\n            write!(f, "{}", key)?;\n            write!(f, " ")?;\n        }\n        write!(f, "{}", first)?;\n')]},
    {"id": "C18-chord-display-split-first-drops-first", "prop": "C18", "expect": "SEPARATORS/ANCHOR/KeyChord",
     "edits": [(K, _CHORD_LOOP, '        let Some((_first, rest)) = self.keys().split_first() else {\n            return Ok(());\n        };\n'
                '        for (index, key) in rest.iter().enumerate() {\n            if index > 0 {\n                write!(f, " ")?;\n            }\n            write!(f, "{}", key)?;\n        }\n')]},
    {"id": "C18-benign-one-char-tuple-match", "prop": "C18", "benign": True, "edits": [(K, _ONE_CHAR_OLD, _one_char())]},
    {"id": "C18-one-char-tuple-match-extra-char", "prop": "C18", "expect": "NAME-ROUNDTRIP/KeyName::from_str/row:char:",
     "edits": [(K, _ONE_CHAR_OLD, _one_char(first="'a'..='z' | '0'..='9' | '*'"))]},
    {"id": "C18-one-char-tuple-match-accepts-longer", "prop": "C18", "expect": "NAME-ROUNDTRIP/ANCHOR/KeyName::from_str",
     "edits": [(K, _ONE_CHAR_OLD, _one_char(second_tail="_"))]},
]
MUTANTS += [
    {"id": "C18-unwrap-in-free-modifier-helper", "prop": "C18", "expect": "PANIC-SITE/modifier_by_name",
     "edits": [(K, _MODS_OLD, _MATCH_CALL), (K, _CHORD_STRUCT, _helper(True).replace('    Some(match attr {', '    let attr = attr.strip_prefix("mod-").unwrap();\n    Some(match attr {'))]},
]


# ---- helper whose result goes through a local (`let m = match attr {.., _ => return None}; Some(m)`), loop with let-else (seeded benign C19-M);
# ---- single-character classes decided by a match nested under `(Some(c), None)` (seeded benign C18-O)
def _helper_let(alt="KeyMod::ALT", wrapped=True):
    h = _helper(wrapped, alt=alt)
    if wrapped:
        return h.replace("    Some(match attr {", "    let modifier = match attr {").replace("        _ => return None,\n    })\n", "        _ => return None,\n    };\n    Some(modifier)\n")
    return h.replace("    match attr {", "    let found = match attr {").replace("        _ => None,\n    }\n", "        _ => None,\n    };\n    found\n")


_LETELSE_LOOP = ('            let attr = attr.to_lowercase();\n            if let Some(modifier) = modifier_by_name(&attr) {\n                key_mod |= modifier;\n                continue;\n            }\n'
                 '            let Ok(name) = attr.parse::<KeyName>() else {\n                break;\n            };\n'
                 '            if key_name.replace(name).is_some() {\n                key_name.take();\n                break;\n            }\n')


def _one_char_nested(first="'a'..='z' | '0'..='9'", second="None", outer="c"):
    return ("            cs => {\n                let mut chars = cs.chars();\n                match (chars.next(), chars.next()) {\n"
            "                    (Some(%s), %s) => match c {\n"
            "                        %s => KeyName::Char(c),\n"
            "                        '`' | '-' | '=' | '[' | ']' | '\\\\' | ';' | ',' | '.' | '/' => {\n                            KeyName::Char(c)\n                        }\n"
            '                        _ => return Err(Error::ParseError("KeyName", string.to_string())),\n                    },\n'
            '                    _ => return Err(Error::ParseError("KeyName", string.to_string())),\n                }\n            }\n') % (outer, second, first)


MUTANTS += [
    {"id": "C18-benign-modifier-helper-let-then-some", "prop": "C18", "benign": True,
     "edits": [(K, _MODS_OLD + _NAME_TAIL, _LETELSE_LOOP), (K, _CHORD_STRUCT, _helper_let())]},
    {"id": "C18-benign-modifier-helper-let-then-tail", "prop": "C18", "benign": True,
     "edits": [(K, _MODS_OLD, _MATCH_CALL), (K, _CHORD_STRUCT, _helper_let(wrapped=False))]},
    {"id": "C18-modifier-helper-let-alt-sets-ctrl", "prop": "C18", "expect": "MOD-ROUNDTRIP",
     "edits": [(K, _MODS_OLD + _NAME_TAIL, _LETELSE_LOOP), (K, _CHORD_STRUCT, _helper_let(alt="KeyMod::CTRL"))]},
    {"id": "C18-modifier-helper-let-mutated-after", "prop": "C18", "expect": "MOD-ROUNDTRIP/ANCHOR",
     "edits": [(K, _MODS_OLD + _NAME_TAIL, _LETELSE_LOOP),
               (K, _CHORD_STRUCT, _helper_let().replace("    let modifier = match", "    let mut modifier = match").replace("    Some(modifier)\n", "    modifier |= KeyMod::PRESS;\n    Some(modifier)\n"))]},
    {"id": "C18-benign-one-char-nested-match", "prop": "C18", "benign": True, "edits": [(K, _ONE_CHAR_OLD, _one_char_nested())]},
    {"id": "C18-benign-one-char-nested-match-outer-class", "prop": "C18", "benign": True,
     "edits": [(K, _ONE_CHAR_OLD, _one_char_nested(outer="c @ ' '..='~'"))]},
    {"id": "C18-one-char-nested-match-extra-char", "prop": "C18", "expect": "NAME-ROUNDTRIP/KeyName::from_str/row:char:",
     "edits": [(K, _ONE_CHAR_OLD, _one_char_nested(first="'a'..='z' | '0'..='9' | '*'"))]},
    {"id": "C18-one-char-nested-match-accepts-longer", "prop": "C18", "expect": "NAME-ROUNDTRIP/ANCHOR/KeyName::from_str",
     "edits": [(K, _ONE_CHAR_OLD, _one_char_nested(second="_"))]},
]


# ---- robustness round M8: the modifier helper declared INSIDE Key::from_str (nested fn item; seeded benign C18-P)
_FROM_STR_HEAD = "        let mut key_name = None;\n"


def _nested(h):
    h = h[:-len(_CHORD_STRUCT)].rstrip("\n")
    return "".join("        " + l + "\n" if l else "\n" for l in h.split("\n")) + "\n" + _FROM_STR_HEAD


MUTANTS += [
    {"id": "C18-benign-modifier-helper-nested-let-else", "prop": "C18", "benign": True,
     "edits": [(K, _MODS_OLD + _NAME_TAIL, _LETELSE_LOOP), (K, _FROM_STR_HEAD, _nested(_helper_let()))]},
    {"id": "C18-benign-modifier-helper-nested-match", "prop": "C18", "benign": True,
     "edits": [(K, _MODS_OLD, _MATCH_CALL), (K, _FROM_STR_HEAD, _nested(_helper(False)))]},
    {"id": "C18-modifier-helper-nested-alt-sets-ctrl", "prop": "C18", "expect": "MOD-ROUNDTRIP",
     "edits": [(K, _MODS_OLD + _NAME_TAIL, _LETELSE_LOOP), (K, _FROM_STR_HEAD, _nested(_helper_let(alt="KeyMod::CTRL")))]},
    {"id": "C18-modifier-helper-nested-shadows-key-name", "prop": "C18", "expect": "key-name-is-modifier",
     "edits": [(K, _MODS_OLD, _MATCH_CALL), (K, _FROM_STR_HEAD, _nested(_helper(True, extra='        "tab" => KeyMod::CTRL,\n')))]},
]
