"""C16 — behaviour-preserving refactorings that must stay silent (helper extraction, equivalent removal idioms, equivalent
loop conditions, named constants, debug assertions) and the breaking counterparts of the idioms that were made acceptable."""

U = "src/unix.rs"
C = "src/common.rs"

POLL_WRITE_BLOCK = """                let tee = self.tee.as_mut();
                let send = self.write_queue.consume_with(|slice| {
                    let size = guard_io(self.tty.write(slice), 0)?;
                    tee.map(|tee| tee.write(&slice[..size])).transpose()?;
                    Ok::<_, Error>(size)
                })?;
                self.stats.send += send;
"""
DROP_IMPL = "impl std::ops::Drop for UnixTerminal {\n"
CBL_BODY = """            let dropped: usize = self.chunks.drain(1..).map(|chunk| chunk.len()).sum();
            self.length -= dropped;
"""
CBL_IF = """        if self.chunks.len() > 1 {
            let dropped: usize = self.chunks.drain(1..).map(|chunk| chunk.len()).sum();
            self.length -= dropped;
        }
"""
CW_BODY = """        let size = consumer(self.as_slice())?;
        self.consume(size);
        Ok(size)
"""
WAKER_CLOSURE = """        let waker = TerminalWaker::new(move || {
            const WAKE: &[u8] = b"\\x00";
            // use write syscall instead of locking so it would be safe to use in a signal handler
            match rustix::io::write(&waker_write, WAKE) {
                Ok(_) | Err(rustix::io::Errno::INTR | rustix::io::Errno::AGAIN) => Ok(()),
                Err(error) => Err(error.into()),
            }
        });
"""
WAKER_HELPER = """fn waker_notify(waker_write: &UnixStream) -> Result<(), Error> {
    const WAKE: &[u8] = b"\\x00";
    match rustix::io::write(waker_write, WAKE) {
        Ok(_) | Err(rustix::io::Errno::INTR | rustix::io::Errno::AGAIN) => Ok(()),
        Err(error) => Err(error.into()),
    }
}

"""
WHILE = "        while !self.write_queue.is_empty() || self.events_queue.is_empty() {\n"

MUTANTS = [
    # ---- helper extraction ------------------------------------------------------------------------------------------
    {"id": "C16-benign-transmit-helper", "prop": "C16", "benign": True, "edits": [
        (U, POLL_WRITE_BLOCK, "                self.transmit_pending()?;\n"),
        (U, DROP_IMPL, """impl UnixTerminal {
    fn transmit_pending(&mut self) -> Result<(), Error> {
        let tee = self.tee.as_mut();
        let sent = self.write_queue.consume_with(|pending| {
            let accepted = guard_io(self.tty.write(pending), 0)?;
            tee.map(|tee| tee.write(&pending[..accepted])).transpose()?;
            Ok::<_, Error>(accepted)
        })?;
        self.stats.send += sent;
        Ok(())
    }
}

""" + DROP_IMPL)]},
    {"id": "C16-benign-tty-send-helper", "prop": "C16", "benign": True, "edits": [
        (U, "let size = guard_io(self.tty.write(slice), 0)?;", "let size = guard_io(tty_send(&mut self.tty, slice), 0)?;"),
        (U, DROP_IMPL, """fn tty_send(tty: &mut Tty, bytes: &[u8]) -> std::io::Result<usize> {
    tty.write(bytes)
}

""" + DROP_IMPL)]},
    {"id": "C16-benign-consume-front-len-helper", "prop": "C16", "benign": True, "edits": [
        (C, """        if self.chunks.front().map(|chunk| chunk.len()).unwrap_or(0) > self.offset + amt {
            self.offset += amt;
            self.length -= amt;
        } else {
            if let Some(chunk) = self.chunks.pop_front() {
                self.length -= chunk.len() - self.offset
            }
            self.offset = 0;
        }
    }
""", """        if self.front_len() > self.offset + amt {
            self.length -= amt;
            self.offset += amt;
        } else {
            match self.chunks.pop_front() {
                Some(front) => self.length -= front.len() - self.offset,
                None => {}
            }
            self.offset = 0;
        }
    }

    fn front_len(&self) -> usize {
        self.chunks.front().map(|chunk| chunk.len()).unwrap_or(0)
    }
""")]},
    {"id": "C16-benign-consume-pop-helper", "prop": "C16", "benign": True, "edits": [
        (C, """            if let Some(chunk) = self.chunks.pop_front() {
                self.length -= chunk.len() - self.offset
            }
            self.offset = 0;
        }
    }
""", """            self.pop_chunk();
            self.offset = 0;
        }
    }

    fn pop_chunk(&mut self) {
        if let Some(chunk) = self.chunks.pop_front() {
            self.length -= chunk.len() - self.offset
        }
    }
""")]},
    {"id": "C16-benign-flush-helper", "prop": "C16", "benign": True, "edits": [
        (U, "        self.write_queue.flush()?;\n\n        let mut first_loop = true;", "        queue_seal(&mut self.write_queue)?;\n\n        let mut first_loop = true;"),
        (U, DROP_IMPL, """fn queue_seal(queue: &mut IOQueue) -> std::io::Result<()> {
    queue.flush()
}

""" + DROP_IMPL)]},
    # ---- equivalent removal idioms in clear_but_last ----------------------------------------------------------------
    {"id": "C16-benign-truncate-after-measuring", "prop": "C16", "benign": True, "edits": [
        (C, CBL_BODY, """            let dropped: usize = self.chunks.iter().skip(1).map(|chunk| chunk.len()).sum();
            self.chunks.truncate(1);
            self.length -= dropped;
""")]},
    {"id": "C16-benign-split-off", "prop": "C16", "benign": True, "edits": [
        (C, CBL_BODY, """            let tail = self.chunks.split_off(1);
            let dropped: usize = tail.iter().map(|chunk| chunk.len()).sum();
            self.length -= dropped;
""")]},
    {"id": "C16-benign-pop-back-loop", "prop": "C16", "benign": True, "edits": [
        (C, CBL_IF, """        while self.chunks.len() > 1 {
            if let Some(chunk) = self.chunks.pop_back() {
                self.length -= chunk.len();
            }
        }
""")]},
    {"id": "C16-benign-named-keep-constant", "prop": "C16", "benign": True, "edits": [
        (C, CBL_BODY, """            const IN_FLIGHT: usize = 1;
            let dropped: usize = self.chunks.drain(IN_FLIGHT..).map(|chunk| chunk.len()).sum();
            self.length -= dropped;
""")]},
    {"id": "C16-benign-flipped-len-test", "prop": "C16", "benign": True, "edits": [
        (C, "        if self.chunks.len() > 1 {\n            let dropped", "        if 2 <= self.chunks.len() {\n            let dropped")]},
    {"id": "C16-benign-debug-assert-consistent", "prop": "C16", "benign": True, "edits": [
        (C, CBL_IF, CBL_IF + "        debug_assert!(self.offset <= self.chunks.front().map_or(0, |chunk| chunk.len()));\n")]},
    {"id": "C16-benign-hoisted-new-length", "prop": "C16", "benign": True, "edits": [
        (C, CBL_BODY, """            let dropped: usize = self.chunks.drain(1..).map(|chunk| chunk.len()).sum();
            let remaining = self.length - dropped;
            self.length = remaining;
""")]},
    # ---- equivalent loop conditions / closure spellings in poll ----------------------------------------------------------
    {"id": "C16-benign-loop-cond-operands-swapped", "prop": "C16", "benign": True, "edits": [
        (U, WHILE, "        while self.events_queue.is_empty() || !self.write_queue.is_empty() {\n")]},
    {"id": "C16-benign-loop-cond-chunks-count", "prop": "C16", "benign": True, "edits": [
        (U, WHILE, "        while self.write_queue.chunks_count() != 0 || self.events_queue.is_empty() {\n")]},
    {"id": "C16-benign-loop-cond-de-morgan", "prop": "C16", "benign": True, "edits": [
        (U, WHILE, "        while !(self.write_queue.is_empty() && !self.events_queue.is_empty()) {\n")]},
    {"id": "C16-benign-loop-with-break", "prop": "C16", "benign": True, "edits": [
        (U, WHILE, "        loop {\n            if self.write_queue.is_empty() && !self.events_queue.is_empty() {\n                break;\n            }\n")]},
    {"id": "C16-benign-closure-match-instead-of-try", "prop": "C16", "benign": True, "edits": [
        (U, "let size = guard_io(self.tty.write(slice), 0)?;", """let size = match guard_io(self.tty.write(slice), 0) {
                        Ok(size) => size,
                        Err(error) => return Err(error.into()),
                    };""")]},
    {"id": "C16-benign-otherwise-named-constant", "prop": "C16", "benign": True, "edits": [
        (U, "let size = guard_io(self.tty.write(slice), 0)?;", "const NOTHING_SENT: usize = 0;\n                    let size = guard_io(self.tty.write(slice), NOTHING_SENT)?;")]},
    # ---- the breaking counterparts ---------------------------------------------------------------------------------------
    {"id": "C16-truncate-to-zero", "prop": "C16", "expect": "FRONT-KEPT", "edits": [
        (C, CBL_BODY, """            let dropped: usize = self.chunks.iter().map(|chunk| chunk.len()).sum();
            self.chunks.truncate(0);
            self.length -= dropped;
""")]},
    {"id": "C16-truncate-length-absolute", "prop": "C16", "expect": "COUPLED-length", "edits": [
        (C, CBL_BODY, """            self.chunks.truncate(1);
            self.length = self.chunks[0].len();
""")]},
    {"id": "C16-truncate-measures-other-tail", "prop": "C16", "expect": "FRONT-KEPT", "edits": [
        (C, CBL_BODY, """            let dropped: usize = self.chunks.iter().skip(2).map(|chunk| chunk.len()).sum();
            self.chunks.truncate(1);
            self.length -= dropped;
""")]},
    {"id": "C16-pop-back-loop-to-empty", "prop": "C16", "expect": "FRONT-KEPT", "edits": [
        (C, CBL_IF, """        while self.chunks.len() > 0 {
            if let Some(chunk) = self.chunks.pop_back() {
                self.length -= chunk.len();
            }
        }
""")]},
    {"id": "C16-loop-cond-wrong-polarity", "prop": "C16", "expect": "POLL-LOOP", "edits": [
        (U, WHILE, "        while self.write_queue.is_empty() || self.events_queue.is_empty() {\n")]},
    {"id": "C16-loop-cond-and-instead-of-or", "prop": "C16", "expect": "POLL-LOOP", "edits": [
        (U, WHILE, "        while !self.write_queue.is_empty() && self.events_queue.is_empty() {\n")]},
    {"id": "C16-transmit-helper-also-called-from-execute", "prop": "C16", "expect": "WHO-WRITES-TTY", "edits": [
        (U, POLL_WRITE_BLOCK, "                self.transmit_pending()?;\n"),
        (U, "        tracing::trace!(?cmd, \"[UnixTerminal.execute]\");\n", "        tracing::trace!(?cmd, \"[UnixTerminal.execute]\");\n        self.transmit_pending()?;\n"),
        (U, DROP_IMPL, """impl UnixTerminal {
    fn transmit_pending(&mut self) -> Result<(), Error> {
        let tee = self.tee.as_mut();
        let sent = self.write_queue.consume_with(|pending| {
            let accepted = guard_io(self.tty.write(pending), 0)?;
            tee.map(|tee| tee.write(&pending[..accepted])).transpose()?;
            Ok::<_, Error>(accepted)
        })?;
        self.stats.send += sent;
        Ok(())
    }
}

""" + DROP_IMPL)]},
    {"id": "C16-queue-helper-takes-queue", "prop": "C16", "expect": "QUEUE-OWNER", "edits": [
        (U, "        self.write_queue.flush()?;\n\n        let mut first_loop = true;", "        queue_seal(&mut self.write_queue)?;\n\n        let mut first_loop = true;"),
        (U, DROP_IMPL, """fn queue_seal(queue: &mut IOQueue) -> std::io::Result<()> {
    *queue = IOQueue::new();
    queue.flush()
}

""" + DROP_IMPL)]},
]

# ---- FRONT-EXHAUSTED: the guard that decides between "advance offset" and "pop the front chunk" ------------------------------
GUARD = "        if self.chunks.front().map(|chunk| chunk.len()).unwrap_or(0) > self.offset + amt {\n"
CONSUME_BODY = """        if self.chunks.front().map(|chunk| chunk.len()).unwrap_or(0) > self.offset + amt {
            self.offset += amt;
            self.length -= amt;
        } else {
            if let Some(chunk) = self.chunks.pop_front() {
                self.length -= chunk.len() - self.offset
            }
            self.offset = 0;
        }
"""
POP_TAIL = """        if let Some(chunk) = self.chunks.pop_front() {
            self.length -= chunk.len() - self.offset;
        }
        self.offset = 0;
"""
FE = "FRONT-EXHAUSTED/common::IOQueue::consume/"
MUTANTS += [
    # the correct version of the "simplify with as_slice()" refactoring: remaining bytes > amt
    {"id": "C16-benign-guard-remaining-gt-amt", "prop": "C16", "benign": True, "edits": [
        (C, CONSUME_BODY, """        if self.as_slice().len() > amt {
            self.offset += amt;
            self.length -= amt;
            return;
        }
""" + POP_TAIL)]},
    {"id": "C16-benign-guard-remaining-local-swapped-branches", "prop": "C16", "benign": True, "edits": [
        (C, CONSUME_BODY, """        let remaining = self.as_slice().len();
        if amt >= remaining {
""" + POP_TAIL.replace("        ", "            ").replace("            }", "            }") + """        } else {
            self.length -= amt;
            self.offset += amt;
        }
""")]},
    {"id": "C16-benign-guard-match-guard", "prop": "C16", "benign": True, "edits": [
        (C, CONSUME_BODY, """        match self.chunks.front() {
            Some(front) if front.len() > self.offset + amt => {
                self.offset += amt;
                self.length -= amt;
            }
            _ => {
                if let Some(chunk) = self.chunks.pop_front() {
                    self.length -= chunk.len() - self.offset;
                }
                self.offset = 0;
            }
        }
""")]},
    {"id": "C16-benign-guard-end-local-negated", "prop": "C16", "benign": True, "edits": [
        (C, CONSUME_BODY, """        let front_len = self.chunks.front().map_or(0, |front| front.len());
        let end = self.offset + amt;
        if !(end >= front_len) {
            self.offset = end;
            self.length -= amt;
            return;
        }
""" + POP_TAIL)]},
    {"id": "C16-benign-guard-difference-form", "prop": "C16", "benign": True, "edits": [
        (C, GUARD, "        if amt < self.chunks.front().map(|chunk| chunk.len()).unwrap_or(0) - self.offset {\n")]},
    # the seed: as_slice() already excludes offset, so offset is counted twice and the chunk is popped with bytes left
    {"id": "C16-guard-offset-counted-twice", "prop": "C16", "expect": FE + "pop_front-guard", "edits": [
        (C, GUARD, "        if self.as_slice().len() > self.offset + amt {\n")]},
    {"id": "C16-guard-total-length-instead-of-front", "prop": "C16", "expect": FE, "edits": [
        (C, GUARD, "        if self.length > self.offset + amt {\n")]},
    # near misses: off by one (an exhausted chunk stays queued), offset forgotten (slice runs past the chunk)
    {"id": "C16-guard-ge-keeps-exhausted-chunk", "prop": "C16", "expect": FE + "keep-guard", "edits": [
        (C, GUARD, "        if self.chunks.front().map(|chunk| chunk.len()).unwrap_or(0) >= self.offset + amt {\n")]},
    {"id": "C16-guard-ignores-offset", "prop": "C16", "expect": FE + "keep-guard", "edits": [
        (C, GUARD, "        if self.chunks.front().map(|chunk| chunk.len()).unwrap_or(0) > amt {\n")]},
    {"id": "C16-guard-remaining-ge-amt", "prop": "C16", "expect": FE + "keep-guard", "edits": [
        (C, CONSUME_BODY, """        if self.as_slice().len() >= amt {
            self.offset += amt;
            self.length -= amt;
            return;
        }
""" + POP_TAIL)]},
    {"id": "C16-guard-pops-one-byte-early", "prop": "C16", "expect": FE + "pop_front-guard", "edits": [
        (C, GUARD, "        if self.chunks.front().map(|chunk| chunk.len()).unwrap_or(0) > self.offset + amt + 1 {\n")]},
    # ---- consume_with: the consume call inside a Result combinator closure; the waker body in a private helper ----------------
    {"id": "C16-benign-consume-with-map-closure", "prop": "C16", "benign": True, "edits": [
        (C, CW_BODY, """        consumer(self.as_slice()).map(|size| {
            self.consume(size);
            size
        })
""")]},
    {"id": "C16-benign-consume-with-and-then", "prop": "C16", "benign": True, "edits": [
        (C, CW_BODY, """        let sent = consumer(self.as_slice());
        sent.and_then(|amount| {
            self.consume(amount);
            Ok(amount)
        })
""")]},
    {"id": "C16-benign-consume-with-inspect", "prop": "C16", "benign": True, "edits": [
        (C, CW_BODY, """        consumer(self.as_slice()).inspect(|size| self.consume(*size))
""")]},
    {"id": "C16-benign-consume-with-match", "prop": "C16", "benign": True, "edits": [
        (C, CW_BODY, """        match consumer(self.as_slice()) {
            Ok(size) => {
                self.consume(size);
                Ok(size)
            }
            Err(error) => Err(error),
        }
""")]},
    {"id": "C16-consume-with-map-closure-wrong-amount", "prop": "C16", "expect": "RETURNS-FROM", "edits": [
        (C, CW_BODY, """        let pending = self.as_slice().len();
        consumer(self.as_slice()).map(|size| {
            self.consume(pending);
            size
        })
""")]},
    {"id": "C16-consume-with-map-closure-amount-plus-one", "prop": "C16", "expect": "RETURNS-FROM", "edits": [
        (C, CW_BODY, """        consumer(self.as_slice()).map(|size| {
            self.consume(size + 1);
            size
        })
""")]},
    {"id": "C16-benign-waker-notify-helper", "prop": "C16", "benign": True, "edits": [
        (U, WAKER_CLOSURE, "        let waker = TerminalWaker::new(move || waker_notify(&waker_write));\n"),
        (U, DROP_IMPL, WAKER_HELPER + DROP_IMPL)]},
    {"id": "C16-benign-waker-second-closure-before", "prop": "C16", "benign": True, "edits": [
        (U, "        waker_write.set_nonblocking(true)?;\n", "        let nonblocking = |stream: &UnixStream| stream.set_nonblocking(true);\n        nonblocking(&waker_write)?;\n")]},
    {"id": "C16-waker-notify-helper-also-called-from-frames-drop", "prop": "C16", "expect": "WHO-WRITES-TTY", "edits": [
        (U, WAKER_CLOSURE, "        let waker = TerminalWaker::new(move || waker_notify(&waker_write));\n"),
        (U, DROP_IMPL, WAKER_HELPER + DROP_IMPL),
        (U, "        self.write_queue.clear_but_last()\n", "        self.write_queue.clear_but_last();\n        let _ = waker_notify(&self.waker_read);\n")]},
]
