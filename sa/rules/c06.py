"""C06 — the library reads back its own SGR output; FaceModify::apply / FaceAttrs follow SGR semantics (table clauses).

All facts come from src.json trees: the `Face` / `FaceModify` arms of `TTYEncoder::encode` and `color_sgr_encode`
(src/encoder.rs), `sgr_face` / `sgr_color` (src/decoder.rs), `FaceAttrs`, its operator impls and `FaceModify::apply`
(src/face.rs).  Finite tables are enumerated completely; small pure functions are given their value on every input of a
finite domain by sa.consteval (denotation of the source expressions — the repository is never run).
"""
import json
import os

from ..src import find_all, expr_text, pat_text, lit_int
from ..consteval import Interp, Frame, Unsupported, StructV, EnumV, NONE, some, copyv, emissions, strip_try, pat_names
from .c20 import truecolor_template, unref, block_value
from .. import grammar, regex

ENC = "src/encoder.rs"
DEC = "src/decoder.rs"
FACE = "src/face.rs"
REFS = os.path.join(os.path.dirname(os.path.dirname(os.path.abspath(__file__))), "refs", "xterm256.json")


CLAIM = {
    "text": "Decides, from the source trees of the current tree: every SGR chunk pushed by the encoder's FaceModify and Face arms (reset, "
            "bold/italic/blink/strike on and off, six underline styles, the three colour roles in the 38/48/58;2;r;g;b form) is mapped by the "
            "decoder's sgr_face/sgr_color arms back to the same field and value, reset is written first, the ESC[ ; m framing and ;/: splitting "
            "agree, a true-colour triple is read back unchanged also when another parameter follows it and a component above 255 yields no colour; FaceModify::apply's (update, flag) "
            "table is injective, name-consistent and complete, and apply - evaluated on all 192 valid attribute states x 2 colour states for "
            "every single-field modification and all set/clear combinations of the four flags - sets or clears exactly that attribute and "
            "reset yields the default face; every XAssign operator of FaceAttrs equals `*self = *self X rhs` on all 256x256 raw values; "
            "pack/unpack/underline/From and the bit constants realise the 3-bit-style + flags<<3 layout on all 8-bit values; Char(c) is written verbatim and "
            "(UTF8-LANG, 28 instances: 9 RFC 3629 ABNF rows x 3 decoders + the command automaton) the UTF-8 grammar as built for TTYCommandDecoder, Utf8Decoder "
            "and TTYEventDecoder accepts the encoding of every Unicode scalar value that decoder must read back (command decoder: all but ESC, also accepted by "
            "the whole command automaton; Utf8Decoder: all; event decoder: printable ASCII and every multi-byte character) - decided by language inclusion of the "
            "RFC 3629 rows in the grammar's DFA, lead byte by lead byte. NOT decided: "
            "arbitrary SGR histories and chunked writes through TTYCellWriter, the decoder automaton that frames ESC[..m and which matcher wins on a character, "
            "ECMA-48 conformance of the code numbers (bold-off is 21 on both sides).",
    "technique": "finite match/array table extraction and agreement, exhaustive denotational evaluation of small pure functions over finite domains (src.json expression trees); "
                 "grammar extraction (engine E2) + DFA language inclusion against the RFC 3629 byte-sequence table",
    "design_ref": "DESIGN.md §5 C06",
}


# ------------------------------------------------------------------------------------------ encoder side
def encoder_arm(src, variant):
    r = src.fn("encode", impl_self="TTYEncoder")
    if r is None:
        return None
    f, item = r
    for m in find_all(item["body"], lambda n: n.get("k") == "match"):
        for arm in m["arms"]:
            p = arm["pat"]
            if p.get("k") == "tstruct" and p["path"].split("::")[-1] == variant and len(p["elems"]) == 1 and p["elems"][0]["k"] == "ident":
                return f, arm, p["elems"][0]["name"]
        break
    return None


def flatten(items, conds, out):
    """emission items with their stack of conditions: [(conds, item)] in emission order"""
    for it in items:
        k = it[0]
        if k == "if":
            c = it[1]
            if c.get("k") == "letcond":
                out_c = ("iflet", c["pat"], c["e"])
                flatten(it[2], conds + [out_c], out)
                flatten(it[3], conds + [("not-iflet", c["pat"], c["e"])], out)
            else:
                neg = False
                while c.get("k") == "un" and c["op"] == "!":
                    neg = not neg
                    c = c["e"]
                flatten(it[2], conds + [("bool", c, not neg)], out)
                flatten(it[3], conds + [("bool", c, neg)], out)
        elif k == "match":
            for pat, sub in it[2]:
                if not sub:
                    out.append((conds + [("arm", it[1], pat)], ("nothing",)))
                flatten(sub, conds + [("arm", it[1], pat)], out)
        else:
            out.append((conds, it))


def is_field_of(e, var):
    e = unref(e)
    if e.get("k") == "field" and unref(e["e"]).get("k") == "path" and unref(e["e"])["p"] == var:
        return e["name"]
    return None


def pat_value(p):
    """value denoted by the patterns used in the tables: Some(true) -> True, Some(UnderlineStyle::X) -> "X", UnderlineStyle::X -> "X", None -> NONE"""
    if p["k"] == "ident" and p["name"] == "None":
        return "absent"
    if p["k"] == "tstruct" and p["path"] == "Some" and len(p["elems"]) == 1:
        q = p["elems"][0]
        if q["k"] == "lit" and q["e"].get("t") == "bool":
            return bool(q["e"]["v"])
        if q["k"] == "path":
            return q["p"].split("::")[-1]
        if q["k"] == "ident":
            return ("some", q["name"])
    if p["k"] == "path":
        return p["p"].split("::")[-1]
    if p["k"] == "wild":
        return "other"
    return None


def encoder_rows(arm, var):
    """-> (rows, framing, problems); row = dict(field, value, chunk | role, order)"""
    items = emissions(arm["body"])
    flat = []
    flatten(items, [], flat)
    rows, framing, problems = [], [], []
    order = 0
    for conds, it in flat:
        k = it[0]
        if k in ("mcall",):
            framing.append((expr_text(it[1]), it[2], it[3], conds))
            continue
        if k == "nothing":
            continue
        if k not in ("push", "call"):
            problems.append("unexpected %s" % k)
            continue
        key = None
        for c in reversed(conds):
            if c[0] == "bool":
                f = is_field_of(c[1], var)
                if f is not None and c[2] is True:
                    key = (f, True)
                    break
                u = unref(c[1])
                if u.get("k") == "mcall" and u["m"] == "contains" and len(u["args"]) == 1 and c[2] is True \
                        and is_field_of(u["recv"], var) == "attrs" and unref(u["args"][0]).get("k") == "path":
                    key = ("attrs:" + unref(u["args"][0])["p"].split("::")[-1], True)
                    break
            elif c[0] == "iflet":
                f = is_field_of(c[2], var)
                v = pat_value(c[1])
                if f is not None and isinstance(v, tuple):
                    key = (f, v)
                    break
            elif c[0] == "arm":
                f = is_field_of(c[1], var)
                u = unref(c[1])
                if f is None and u.get("k") == "mcall" and u["m"] == "underline" and is_field_of(u["recv"], var) == "attrs":
                    f = "underline"
                v = pat_value(c[2])
                if f is not None and v is not None:
                    key = (f, v)
                    break
        if key is None:
            if not conds and k == "push":
                key = ("reset", "always")
            else:
                problems.append("emission under a condition the rule does not understand: %s" % [c[0] for c in conds])
                continue
        row = {"field": key[0], "value": key[1], "order": order}
        order += 1
        if k == "push":
            if it[1] is None:
                problems.append("pushed chunk is not a byte-string literal for %s" % (key,))
                continue
            row["chunk"] = it[1]
        else:
            if it[1] != "color_sgr_encode" or len(it[2]) != 4:
                problems.append("unexpected call %s" % it[1])
                continue
            role = unref(it[2][3])
            row["role"] = role["p"].split("::")[-1] if role.get("k") == "path" else None
            row["arg"] = expr_text(unref(it[2][1]))
            row["dst"] = expr_text(unref(it[2][0]))
        rows.append(row)
    return rows, framing, problems


def iter_arg(e):
    """iterator expression handed to sgr_color -> (base iterator name, take-limit or None):  &mut it | it.by_ref().take(N) | (&mut it).take(N)"""
    e = unref(e)
    lim = None
    if e.get("k") == "mcall" and e["m"] == "take" and len(e["args"]) == 1 and lit_int(e["args"][0]) is not None:
        lim = lit_int(e["args"][0])
        e = unref(e["recv"])
    if e.get("k") == "mcall" and e["m"] == "by_ref" and not e.get("args"):
        e = unref(e["recv"])
    return (e["p"] if e.get("k") == "path" else expr_text(e)), lim


# ------------------------------------------------------------------------------------------ decoder side
class DecoderTable:
    def __init__(self, src, it):
        self.ok = False
        r = src.fn("sgr_face", file=DEC)
        if r is None:
            return
        self.file, self.item = r
        self.it = it
        self.loop = None
        for w in find_all(self.item["body"], lambda n: n.get("k") == "while"):
            self.loop = w
            break
        if self.loop is None:
            return
        c = self.loop["cond"]
        self.groups_iter = None
        if c.get("k") == "letcond" and unref(c["e"]).get("k") == "mcall" and unref(c["e"])["m"] == "next":
            self.groups_iter = expr_text(unref(unref(c["e"])["recv"]))
            self.group_var = (pat_names(c["pat"]) or [None])[0]
        self.face_var = None
        self.lets = {}
        for s in self.item["body"]["stmts"]:
            if s["k"] == "let" and s["pat"]["k"] == "ident" and s.get("init") and expr_text(s["init"]).startswith("FaceModify::default"):
                self.face_var = s["pat"]["name"]
            if s["k"] == "let" and s["pat"]["k"] == "ident":
                self.lets[s["pat"]["name"]] = s["init"]
        self.cmd_match = None
        for s in self.loop["body"]["stmts"]:
            if s["k"] == "let" and s["pat"]["k"] == "ident":
                self.lets[s["pat"]["name"]] = s["init"]
            if s["k"] == "expr" and s["e"].get("k") == "match":
                self.cmd_match = s["e"]
        if self.cmd_match is None or self.face_var is None:
            return
        self.ok = True

    def split_byte(self, name):
        """byte on which the iterator bound to `name` splits (closure |b| matches!(b, b'x') or *b == b'x')"""
        init = self.lets.get(name)
        if init is None:
            return None
        u = unref(init)
        if u.get("k") == "mcall" and u["m"] == "split" and len(u["args"]) == 1 and u["args"][0].get("k") == "closure":
            lits = find_all(u["args"][0]["body"], lambda n: n.get("k") == "lit" and n.get("t") == "byte")
            if len(lits) == 1:
                return int(lits[0]["v"]), expr_text(unref(u["recv"]))
        return None

    def arm_for(self, match, value):
        for arm in match["arms"]:
            try:
                if self.it.match_pat(arm["pat"], value, {}):
                    return arm
            except Unsupported:
                return None
        return None

    def effect_of(self, body, sub):
        """effect of one arm body: (field, value) / ("reset", True) / None (ignored) / ("?", text)"""
        b = body
        if b.get("k") == "block":
            st = b.get("stmts") or []
            if not st:
                return None
            if len(st) != 1 or st[0]["k"] != "expr":
                return ("?", "block")
            b = st[0]["e"]
        if b.get("k") == "match":
            arm = self.arm_for(b, some(sub) if sub is not None else NONE)
            scr = expr_text(b["e"])
            if arm is None:
                return ("?", "sub-match")
            eff = self.effect_of(arm["body"], None)
            self.sub_scrutinee = scr
            return eff
        if b.get("k") == "assign":
            l = unref(b["l"])
            r = unref(b["r"])
            if l.get("k") == "path" and l["p"] == self.face_var and r.get("k") == "struct":
                fields = {f["name"]: f["e"] for f in r["fields"]}
                rest = expr_text(r["rest"]) if r.get("rest") else None
                if set(fields) == {"reset"} and fields["reset"].get("k") == "lit" and fields["reset"].get("v") is True and rest and rest.startswith("FaceModify::default"):
                    return ("reset", True)
                return ("?", "struct")
            f = is_field_of(l, self.face_var)
            if f is None:
                return ("?", "assign")
            if r.get("k") == "call" and r["f"].get("p") == "Some" and len(r["args"]) == 1:
                a = unref(r["args"][0])
                if a.get("k") == "lit" and a["t"] == "bool":
                    return (f, bool(a["v"]))
                if a.get("k") == "path":
                    return (f, a["p"].split("::")[-1])
                if a.get("k") == "index":
                    return (f, ("palette", expr_text(a)))
                return ("?", expr_text(a))
            if r.get("k") == "call" and r["f"].get("k") == "path" and not r.get("args"):
                return (f, ("colour", r["f"]["p"]))
            return ("?", expr_text(r))
        return ("?", b.get("k"))

    def decode_chunk(self, chunk, sub_sep):
        """encoder chunk -> effect of the decoder, by the decoder's own splitting rule"""
        parts = chunk.split(bytes([sub_sep]))
        try:
            nums = [int(p) for p in parts]
        except ValueError:
            return ("?", "non-numeric chunk")
        arm = self.arm_for(self.cmd_match, some(nums[0]))
        if arm is None:
            return ("?", "no arm")
        self.sub_scrutinee = None
        eff = self.effect_of(arm["body"], nums[1] if len(nums) > 1 else None)
        if len(nums) > 1 and self.sub_scrutinee is None:
            return ("?", "sub-parameter ignored")
        return eff


# ------------------------------------------------------------------------------------------ characters: the UTF-8 language
# RFC 3629 section 4, "Syntax of UTF-8 Byte Sequences" (ABNF UTF8-1 .. UTF8-4): one row per alternative, lead-byte range followed by the
# continuation-byte ranges; together the rows are exactly the encodings of the Unicode scalar values U+0000..U+D7FF, U+E000..U+10FFFF.
_TAIL = (0x80, 0xBF)
RFC3629_ROWS = [
    ("UTF8-1", [(0x00, 0x7F)]),
    ("UTF8-2", [(0xC2, 0xDF), _TAIL]),
    ("UTF8-3/E0", [(0xE0, 0xE0), (0xA0, 0xBF), _TAIL]),
    ("UTF8-3/E1-EC", [(0xE1, 0xEC), _TAIL, _TAIL]),
    ("UTF8-3/ED", [(0xED, 0xED), (0x80, 0x9F), _TAIL]),
    ("UTF8-3/EE-EF", [(0xEE, 0xEF), _TAIL, _TAIL]),
    ("UTF8-4/F0", [(0xF0, 0xF0), (0x90, 0xBF), _TAIL, _TAIL]),
    ("UTF8-4/F1-F3", [(0xF1, 0xF3), _TAIL, _TAIL, _TAIL]),
    ("UTF8-4/F4", [(0xF4, 0xF4), (0x80, 0x8F), _TAIL, _TAIL]),
]
ASCII = regex.cls_range(0x00, 0x7F)
ESC = 1 << 0x1B
# one-byte characters each consumer has to read back as a character (multi-byte rows are required of every consumer):
#   command decoder  - C06: "all characters except ESC";  Utf8Decoder (plain text writers) - every scalar value;
#   event decoder    - printable ASCII (control bytes are keys there, decoder.rs documents the UTF8Matcher as "one-byte codes are restricted to the printable set")
ONE_BYTE = {"command": ASCII & ~ESC, "utf8decoder": ASCII, "event": regex.cls_range(0x20, 0x7E)}


def _row_dfa(classes):
    return regex.compile_rx(regex.Rx("seq", [regex.Rx("pred", (), m) for m in classes]))


def _scalar(word):
    """code point denoted by a well-formed RFC 3629 sequence"""
    return ord(bytes(word).decode("utf-8"))


def _span_text(bs):
    """'f4' | 'e1..ec' | 'c2,c5' for a sorted list of byte values"""
    if not bs:
        return ""
    if bs == list(range(bs[0], bs[-1] + 1)):
        return "%02x" % bs[0] if len(bs) == 1 else "%02x..%02x" % (bs[0], bs[-1])
    return ",".join("%02x" % b for b in bs[:4]) + ("+%d" % (len(bs) - 4) if len(bs) > 4 else "")


def utf8_row_gaps(d, classes):
    """lead bytes of one RFC 3629 row some of whose sequences the DFA `d` does not accept: ([dead lead bytes], [(lead, witness word)] for
    leads that are live but lose some continuation), decided by language inclusion (product search), one lead byte at a time"""
    dead, partial = [], []
    lead = classes[0]
    while lead:
        w = regex.subset_witness(_row_dfa([lead] + list(classes[1:])), d)
        if w is None:
            break
        b = w[0]
        if d.step(d.start, b) < 0:
            dead.append(b)
        else:
            partial.append((b, bytes(w)))
        lead &= ~(1 << b)
    return dead, partial


def utf8_consumers(src, gs):
    """[(consumer, grammar name, role)] - which extracted UTF-8 grammar each decoder runs; problems as [(anchor, text)]"""
    out, problems = [], []
    for which, dec in (("command", "TTYCommandDecoder"), ("event", "TTYEventDecoder")):
        regs = [r for r in grammar.registrations(src, which) if r.impl == "UTF8Matcher"]
        if len(regs) != 1:
            problems.append((dec + "-utf8-matcher", "%s registers %d UTF8Matcher instances (expected exactly one)" % (dec, len(regs))))
            continue
        out.append((dec, regs[0].name, which))
    # the compiled helper static(s) that Utf8Decoder steps
    helpers = {n for n, g in gs.items() if g.kind == "helper"}
    used = []
    for (f, s, tr, item, t) in src.fns:
        if t or s is None or grammar.base_name(s) != "Utf8Decoder":
            continue
        for n in find_all(item["body"], lambda n: n.get("k") == "path" and n["p"] in helpers):
            if n["p"] not in used:
                used.append(n["p"])
    if len(used) != 1:
        problems.append(("Utf8Decoder-automaton", "Utf8Decoder steps %d compiled helper automata (expected exactly one): %s" % (len(used), used)))
    else:
        out.append(("Utf8Decoder", used[0], "utf8decoder"))
    return out, problems


def utf8_lang(ctx):
    src = ctx.src
    ctx.rule("UTF8-LANG", "the as-built UTF-8 grammar each decoder runs accepts the RFC 3629 encoding of every Unicode scalar value the decoder has to read back "
                          "(language inclusion per ABNF row; command decoder: all but ESC, also in the whole command automaton)", floor=28)
    try:
        gs = grammar.extract(src)
        consumers, problems = utf8_consumers(src, gs)
    except grammar.Unfoldable as ex:
        ctx.anchor("UTF8-LANG", "grammar-extraction", str(ex))
        return False
    for p in grammar.extraction_problems(src):
        ctx.anchor("UTF8-LANG", "grammar-extraction", p)
    for a, text in problems:
        ctx.anchor("UTF8-LANG", a, text)
    ok_all = not problems
    for dec, gname, role in consumers:
        g = gs.get(gname)
        if g is None or g.rx is None:
            ctx.anchor("UTF8-LANG", "grammar-" + gname, "grammar %s not folded: %s" % (gname, g.problem if g else "not extracted"))
            ok_all = False
            continue
        try:
            d = g.asbuilt_dfa
        except grammar.Unfoldable as ex:
            ctx.anchor("UTF8-LANG", "grammar-" + gname, str(ex))
            ok_all = False
            continue
        site = [g.site] if g.site else [DEC]
        for row, ranges in RFC3629_ROWS:
            classes = [regex.cls_range(lo, hi) for lo, hi in ranges]
            if len(classes) == 1:
                classes = [classes[0] & ONE_BYTE[role]]
            dead, partial = utf8_row_gaps(d, classes)
            ctx.instance("UTF8-LANG", {"decoder": dec, "grammar": gname, "row": row, "required": [regex.cls_text(m) for m in classes],
                                       "missing_leads": ["%02x" % b for b in dead], "partial_leads": ["%02x" % b for b, _ in partial]})
            L = len(classes)
            if dead:
                lo = _scalar([dead[0]] + [rg[0] for rg in ranges[1:]])
                hi = _scalar([dead[-1]] + [rg[1] for rg in ranges[1:]])
                ctx.violation("UTF8-LANG", gname, "%d-byte-lead-%s" % (L, _span_text(dead)),
                              "%s (grammar %s) does not accept lead byte(s) %s of RFC 3629 row %s: %s not read back as characters (%d lead bytes), e.g. %s"
                              % (dec, gname, _span_text(dead), row,
                                 "U+%04X" % lo if L == 1 and len(dead) == 1 else "U+%04X..=U+%04X" % (lo, hi) if dead == list(range(dead[0], dead[-1] + 1)) else "characters from U+%04X" % lo,
                                 len(dead), regex.bytes_text(bytes([dead[0]] + [rg[0] for rg in ranges[1:]]))),
                              sites=site, detail={"missing_lead_bytes": dead, "row": row})
            if partial:
                leads = [b for b, _ in partial]
                w = partial[0][1]
                ctx.violation("UTF8-LANG", gname, "%d-byte-continuation-after-%s" % (L, _span_text(leads)),
                              "%s (grammar %s) accepts lead byte(s) %s but not every continuation RFC 3629 row %s allows: e.g. %s = U+%04X is not accepted"
                              % (dec, gname, _span_text(leads), row, regex.bytes_text(w), _scalar(w)), sites=site, detail={"witness": list(w), "row": row})
            if dead or partial:
                ok_all = False
    # the whole command automaton (what TTYCommandDecoder steps): the union as written in MatcherAutomata::new still accepts every character
    cmd = [c for c in consumers if c[2] == "command"]
    st = grammar.extraction(src).statics_of.get("command")
    ug = gs.get(st[1]) if st else None
    if not cmd or ug is None or ug.rx is None:
        ctx.anchor("UTF8-LANG", "command-automaton", "the compiled automaton of TTYCommandDecoder was not extracted")
        return False
    try:
        ud = ug.asbuilt_dfa
    except grammar.Unfoldable as ex:
        ctx.anchor("UTF8-LANG", "command-automaton", str(ex))
        return False
    first = None
    for row, ranges in RFC3629_ROWS:
        classes = [regex.cls_range(lo, hi) for lo, hi in ranges]
        if len(classes) == 1:
            classes = [classes[0] & ONE_BYTE["command"]]
        w = regex.subset_witness(_row_dfa(classes), ud)
        if w is not None and first is None:
            first = (row, bytes(w))
    ctx.instance("UTF8-LANG", {"decoder": "TTYCommandDecoder", "automaton": ug.name, "accepts_every_scalar_but_ESC": first is None})
    if first is not None:
        ok_all = False
        ctx.violation("UTF8-LANG", ug.name, "%d-byte-lead-%02x" % (len(first[1]), first[1][0]),
                      "the command automaton %s does not accept %s = U+%04X (RFC 3629 row %s)" % (ug.name, regex.bytes_text(first[1]), _scalar(first[1]), first[0]),
                      sites=[ug.site] if ug.site else [DEC], detail={"witness": list(first[1])})
    return ok_all


# ------------------------------------------------------------------------------------------ run
def run(ctx):
    src = ctx.src
    ref = json.load(open(REFS))
    ctx.explanation = (
        "Decides table clauses of C06 from src.json: (a) every SGR chunk the encoder's FaceModify and Face arms push (reset, 4 flags x on/off, 6 "
        "underline styles, 3 colour roles in the 38/48/58;2;r;g;b form) is mapped by sgr_face/sgr_color back to the same field and value, the reset "
        "is emitted first, the framing ESC[ ; m and the ;/: splitting agree, and a true-colour triple is read back unchanged also when another "
        "parameter follows it; (b) FaceModify::apply's (update, flag) table is injective, name-consistent and complete; apply is evaluated for "
        "every single-field modification on all 192 valid attribute states x 2 colour states against SGR set/clear semantics; (c) each XAssign "
        "impl of FaceAttrs equals `*self = *self X rhs` on all 256x256 raw values; (d) pack/unpack/underline/constants bit layout over all 8-bit "
        "values; (e) Char(c) is written verbatim and the as-built UTF-8 grammar of the command decoder (all characters except ESC, also in the whole command "
        "automaton), of Utf8Decoder (all) and of the event decoder (printable ASCII + multi-byte) contains every RFC 3629 well-formed sequence, row by row "
        "and lead byte by lead byte (UTF8-LANG). NOT decided: arbitrary SGR histories and chunked writes through TTYCellWriter (fold structure is C03's), the decoder's automaton, "
        "numeric overflow of colour components, conformance of the code numbers to ECMA-48 (the property is about the library's own output).")
    ctx.assume("FaceAttrs raw values stay below 2^8 (3 underline bits + 5 flag bits); integer operations in the evaluated expressions do not overflow u16 on that domain")
    finite_ok = True
    it = Interp(src)
    it.extern_fns["RGBA::new"] = lambda args: ("RGBA",) + tuple(args)

    # =========================================================== (a) SGR tables
    ctx.rule("SGR-TABLE", "each chunk pushed by the encoder's FaceModify/Face arms decodes (sgr_face arms) to the same field and value", floor=31)
    ctx.rule("SGR-COLOR", "true-colour form <38|48|58>;2;r;g;b: selector, component order and arity agree with sgr_color, also when another parameter follows; components > 255 rejected", floor=7)
    ctx.rule("SGR-FRAME", "reset is emitted first (decoder's 0 discards earlier fields); ESC[ .. ; .. m framing and ;/: splitting agree", floor=5)
    dec = DecoderTable(src, it)
    tc = truecolor_template(src)
    fm_arm = encoder_arm(src, "FaceModify")
    face_arm = encoder_arm(src, "Face")
    st = src.struct("FaceModify")
    fm_fields = {f["name"]: f["ty"].replace(" ", "") for f in st[1]["fields"]} if st else {}
    en = src.enum("UnderlineStyle")
    styles = [v["name"] for v in en[1]["variants"]] if en else []
    bool_fields = [n for n, t in fm_fields.items() if t == "Option<bool>"]
    colour_fields = [n for n, t in fm_fields.items() if t == "Option<RGBA>"]
    if not dec.ok or tc is None or fm_arm is None or face_arm is None or not st or not en:
        ctx.anchor("SGR-TABLE", "encoder-arms/sgr_face")
        finite_ok = False
    else:
        gsplit = dec.split_byte(dec.groups_iter)
        sub_iter = None
        cmd_init = dec.lets.get(expr_text(dec.cmd_match["e"]))
        if cmd_init is not None:
            nx = [n for n in find_all(cmd_init, lambda n: n.get("k") == "mcall" and n["m"] == "next")]
            sub_iter = expr_text(unref(nx[0]["recv"])) if nx else None
        ssplit = dec.split_byte(sub_iter) if sub_iter else None
        sep = gsplit[0] if gsplit else None
        sub_sep = ssplit[0] if ssplit else None
        if sep is None or sub_sep is None or ssplit[1] != dec.group_var:
            ctx.anchor("SGR-FRAME", "decoder-split-bytes")
            sub_sep = sub_sep or ord(":")

        for arm_name, (f, arm, var) in (("FaceModify", fm_arm), ("Face", face_arm)):
            where = "TTYEncoder::encode/" + arm_name
            site = ["%s:%d" % (f, arm["pat"]["line"])]
            rows, framing, problems = encoder_rows(arm, var)
            for p in problems:
                ctx.anchor("SGR-TABLE", where + "/" + p.split(":")[0], p)
                finite_ok = False
            seen = set()
            for row in rows:
                fld, val = row["field"], row["value"]
                if fld.startswith("attrs:"):
                    const = fld.split(":")[1]
                    fld = const.lower()
                    if fld not in fm_fields:
                        # attribute a FaceModify cannot express (e.g. REVERSE): the decoder must not turn it into something else
                        eff = dec.decode_chunk(row["chunk"], sub_sep)
                        ctx.instance("SGR-TABLE", {"arm": arm_name, "attr": const, "chunk": row["chunk"].decode(), "decoder": str(eff), "expressible": False}, nontrivial=False)
                        if eff is not None:
                            ctx.violation("SGR-TABLE", where, "%s-misread" % const, "chunk %r for %s (not expressible by FaceModify) is decoded as %s" % (row["chunk"], const, eff), sites=site)
                        continue
                seen.add((fld, str(val)))
                if "role" in row:
                    # colour: role -> prefix of the true-colour template -> decoder arm
                    pref = tc["prefix"].get(row["role"])
                    bound_ok = isinstance(val, tuple) and row["arg"] == val[1]
                    eff = dec.decode_chunk(pref, sub_sep) if pref else ("?", "no prefix for role %s" % row["role"])
                    good = bound_ok and isinstance(eff, tuple) and eff[0] == fld and isinstance(eff[1], tuple) and eff[1][0] == "colour"
                    ctx.instance("SGR-TABLE", {"arm": arm_name, "field": fld, "role": row["role"], "prefix": pref.decode() if pref else None, "decoder": str(eff)})
                    if not good:
                        ctx.violation("SGR-TABLE", where, "%s-colour" % fld,
                                      "colour field %s is written with role %s (prefix %r, value %s) but the decoder maps that prefix to %s" % (fld, row["role"], pref, row["arg"], eff), sites=site)
                    continue
                if fld == "reset":
                    want = ("reset", True)
                    label = "reset"
                elif fld == "underline":
                    want = ("underline", val)
                    label = "underline-%s" % val
                else:
                    want = (fld, val)
                    label = "%s-%s" % (fld, "on" if val is True else "off" if val is False else val)
                eff = dec.decode_chunk(row["chunk"], sub_sep)
                ctx.instance("SGR-TABLE", {"arm": arm_name, "field": fld, "value": str(val), "chunk": row["chunk"].decode(), "decoder": str(eff)})
                if eff != want:
                    ctx.violation("SGR-TABLE", where, label,
                                  "%s=%s is written as SGR %r which sgr_face reads as %s" % (fld, val, row["chunk"].decode(), "nothing" if eff is None else "%s=%s" % eff), sites=site)
            # completeness of the FaceModify arm: every expressible (field, value) has a row
            if arm_name == "FaceModify":
                want_rows = [("reset", "True")] + [(c, None) for c in colour_fields] + [("underline", s) for s in styles] + [(b, str(v)) for b in bool_fields for v in (True, False)]
                for fld, v in want_rows:
                    have = any(s[0] == fld and (v is None or s[1] == v) for s in seen)
                    if not have:
                        ctx.violation("SGR-TABLE", where, "missing-%s-%s" % (fld, v), "FaceModify.%s = %s is never written by the encoder" % (fld, v), sites=site)
            # reset first
            r0 = [r for r in rows if r["field"] == "reset"]
            first = bool(r0) and r0[0]["order"] == 0 and len(r0) == 1
            ctx.instance("SGR-FRAME", {"arm": arm_name, "reset_first": first, "emission_order": [r["field"] for r in rows][:8]})
            if not first:
                ctx.violation("SGR-FRAME", where, "reset-not-first", "the reset chunk must be the first parameter: sgr_face's arm for 0 discards every field decoded before it", sites=site)
            # framing
            fr = [(m, [bytes(unref(a)["v"]) if unref(a).get("k") == "lit" and unref(a).get("t") == "bytestr" else None for a in args]) for (_, m, args, _) in framing]
            lits = [(m, a[0]) for m, a in fr if m in ("write_all", "drain") and a]
            good = lits == [("write_all", b"\x1b["), ("drain", bytes([sep or 0])), ("write_all", b"m")]
            ctx.instance("SGR-FRAME", {"arm": arm_name, "framing": [(m, a.decode("latin1") if a else None) for m, a in lits], "ok": good})
            if not good:
                ctx.violation("SGR-FRAME", where, "framing", "chunks are not written as ESC[ <chunks joined by %r> m: %s" % (chr(sep or 0), lits), sites=site)
            # the order in which colours are followed by other parameters (used below)
            if arm_name == "FaceModify":
                fm_rows = rows
        # decoder slices ESC[ ... m
        gm = src.fn("decode", impl_self="GraphicRenditionMatcher")
        okd = False
        if gm:
            calls = find_all(gm[1]["body"], lambda n: n.get("k") == "call" and n["f"].get("p") == "sgr_face")
            if len(calls) == 1 and len(calls[0]["args"]) == 1:
                a = unref(calls[0]["args"][0])
                okd = a.get("k") == "index" and a["i"].get("k") == "range" and lit_int(a["i"].get("lo")) == 2 and expr_text(a["i"].get("hi")) == "(data.len() - 1)"
        ctx.instance("SGR-FRAME", {"decoder_payload": "data[2..data.len() - 1]", "ok": okd, "split": [chr(sep or 0), chr(sub_sep)]})
        if not okd:
            ctx.violation("SGR-FRAME", "GraphicRenditionMatcher::decode", "payload", "sgr_face is not given the bytes between ESC[ and the final m", sites=[DEC])

        # ---------------- colour sub-protocol
        sc = src.fn("sgr_color", file=DEC)
        site = ["%s:%d" % (DEC, sc[1]["line"])] if sc else []
        # which iterator the thunk hands to sgr_color for the `;` form
        thunk = None
        for name, init in dec.lets.items():
            if init is not None and unref(init).get("k") == "closure":
                calls = find_all(init, lambda n: n.get("k") == "call" and n["f"].get("p") == "sgr_color")
                if calls:
                    thunk = (name, init, calls)
        shares = None
        shared_limit = None
        if thunk:
            passed = []
            for c in thunk[2]:
                base, lim = iter_arg(c["args"][0]) if c.get("args") else (None, None)
                passed.append(base)
                if base == dec.groups_iter:
                    shared_limit = lim
            shares = dec.groups_iter in passed
            ctx.instance("SGR-COLOR", {"thunk": thunk[0], "iterators_passed": passed, "semicolon_form_uses": dec.groups_iter, "take_limit": shared_limit})
            if not shares or sub_iter not in passed:
                ctx.violation("SGR-COLOR", "decoder::sgr_face", "thunk-iterators", "colour parameters must be read from the `;` iterator (encoder form) or the `:` iterator: %s" % passed, sites=site)
        else:
            ctx.anchor("SGR-COLOR", "sgr_color_thunk")
        sel = tc["selector"]
        mm = block_value(sc[1]["body"]) if sc else None
        inner = None
        if mm is not None and mm.get("k") == "match" and sel:
            arm = None
            for a in mm["arms"]:
                try:
                    if it.match_pat(a["pat"], int(sel), {}):
                        arm = a
                        break
                except (Unsupported, ValueError):
                    break
            if arm is not None:
                inner = block_value(arm["body"])
        if inner is None or inner.get("k") != "match" or unref(inner["e"]).get("k") != "array":
            ctx.anchor("SGR-COLOR", "sgr_color-direct-arm", "sgr_color has no arm for selector %r that matches on an array of parameters" % sel)
            finite_ok = False
        else:
            elems = unref(inner["e"])["elems"]
            n_read = sum(1 for e in elems if find_all(e, lambda n: n.get("k") == "mcall" and n["m"] == "next"))
            if shared_limit is not None:
                # the `;` iterator is handed over as <iter>.take(N): selector + components cannot exceed N
                n_sel = len(find_all(mm["e"], lambda n: n.get("k") == "mcall" and n["m"] == "next"))
                n_read = max(0, min(n_read, shared_limit - n_sel))
            n_written = len(tc["holes"])
            R, G, B, X = 11, 22, 33, 44
            want = ("Some", ("RGBA", R, G, B, 255))

            def read_back(params):
                vals = [some(p) if p is not None else NONE for p in params] + [NONE] * (len(elems) - len(params))
                try:
                    return it.match_value(inner, vals[:len(elems)], Frame({}, None, DEC), as_fn_body=True)
                except Unsupported as ex:
                    return "not evaluable: %s" % ex
            comps = [(R, G, B)[h] if h is not None else None for h in tc["holes"]]
            last = read_back(comps[:n_read] if n_read < n_written else comps)
            ctx.instance("SGR-COLOR", {"case": "colour is the last parameter", "written": comps, "read": str(last), "components": ref["sgr_colour_params"]["direct_components"]})
            if last != want:
                ctx.violation("SGR-COLOR", "decoder::sgr_color", "component-order", "%s;%s written for RGB(%d,%d,%d) is read back as %s" % (sel.decode(), ";".join(map(str, comps)), R, G, B, last), sites=site)
            # a component that does not fit a byte is not a colour (must not be truncated into a different colour)
            if last == want and n_read >= n_written:
                bad_over = None
                for j in range(n_written):
                    for big in (256, 1000):
                        got = read_back([big if i == j else c for i, c in enumerate(comps)])
                        if got != NONE and bad_over is None:
                            bad_over = (j, big, got)
                ctx.instance("SGR-COLOR", {"case": "component above 255", "positions": n_written, "rejected": bad_over is None})
                if bad_over is not None:
                    ctx.violation("SGR-COLOR", "decoder::sgr_color", "component-overflow",
                                  "component %d = %d of a true-colour triple is read back as %s instead of being rejected (no colour)" % (bad_over[0], bad_over[1], bad_over[2]), sites=site)
            # followed by another parameter
            followers = []
            if 'fm_rows' in locals():
                for r in fm_rows:
                    if "role" in r:
                        later = [q["field"] for q in fm_rows if q["order"] > r["order"]]
                        followers.append((r["field"], later))
            ctx.instance("SGR-COLOR", {"parameters_written": n_written, "parameters_drawn_by_decoder": n_read, "shared_iterator": shares,
                                       "colour_fields_followed_by": {f: l[:3] for f, l in followers}})
            if n_read > n_written and shares and any(l for _, l in followers):
                nxt = read_back(comps + [X])
                ctx.instance("SGR-COLOR", {"case": "another numeric parameter follows", "written": comps + [X], "read": str(nxt)})
                fol = [f for f, l in followers if l][0]
                ctx.violation("SGR-COLOR", "decoder::sgr_color", "swallows-next-parameter",
                              "the encoder writes a colour as %s;%s;r;g;b (%d parameters after the selector) and continues with the next field, but sgr_color draws %d "
                              "parameters from the shared `;` iterator: with a following parameter %d the triple (%d,%d,%d) is read back as %s and the following parameter "
                              "is consumed. E.g. FaceModify{%s: Some(RGB(1,2,3)), bold: Some(true)} is written as ESC[38;2;1;2;3;1m and read back as fg=RGB(2,3,1) with no bold"
                              % (tc["prefix"].get("Foreground", b"38").decode(), sel.decode(), n_written, n_read, X, R, G, B, nxt, fol), sites=site,
                              detail={"written": comps + [X], "read": str(nxt)})
            elif n_read > n_written and shares:
                ctx.note("sgr_color draws %d parameters but colours are always written last" % n_read)
            for role, code in ref["sgr_colour_params"]["role_prefix"].items():
                got = tc["prefix"].get(role)
                ctx.instance("SGR-COLOR", {"role": role, "prefix": got.decode() if got else None})
                # conformance of the prefix itself is C20/TRUECOLOR's; here only that each role has a distinct prefix
            pv = [v for v in tc["prefix"].values()]
            if len(set(pv)) != len(pv) or None in pv:
                ctx.violation("SGR-COLOR", "encoder::color_sgr_encode", "prefix-not-distinct", "colour roles do not have distinct prefixes: %s" % tc["prefix"], sites=[ENC])
        # informational: the encoder's bold-off code
        for r in fm_rows if 'fm_rows' in locals() else []:
            if r["field"] == "bold" and r["value"] is False and r.get("chunk") != b"22":
                ctx.note("bold-off is written and read as SGR %s; ECMA-48/xterm use 22 for normal intensity (21 = doubly underlined). Self-consistent, so not reported under C06." % r["chunk"].decode())

    # =========================================================== (b) apply table
    ctx.rule("APPLY-TABLE", "FaceModify::apply: (update, flag) rows are injective, name-consistent (bold->BOLD ..), cover every Option<bool> field; Some(true)=>insert, Some(false)=>remove", floor=6)
    ap = src.fn("apply", impl_self="FaceModify")
    if ap is None:
        ctx.anchor("APPLY-TABLE", "FaceModify::apply")
        finite_ok = False
    else:
        asite = ["%s:%d" % (ap[0], ap[1]["line"])]
        loops = [n for n in find_all(ap[1]["body"], lambda n: n.get("k") == "for" and unref(n["iter"]).get("k") == "array")]
        rows = []
        loop = loops[0] if len(loops) == 1 else None
        if loop is None or loop["pat"]["k"] != "tuple" or len(loop["pat"]["elems"]) != 2:
            ctx.anchor("APPLY-TABLE", "update-flag-array")
            finite_ok = False
        else:
            for row in unref(loop["iter"])["elems"]:
                if row.get("k") != "tuple" or len(row["elems"]) != 2:
                    ctx.anchor("APPLY-TABLE", "row-shape")
                    continue
                f = is_field_of(row["elems"][0], "self")
                c = unref(row["elems"][1])
                cname = c["p"].split("::")[-1] if c.get("k") == "path" and c["p"].startswith("FaceAttrs::") else None
                rows.append((f, cname, row["line"]))
                ctx.instance("APPLY-TABLE", {"update": f, "flag": cname})
                if f is None or cname is None:
                    ctx.anchor("APPLY-TABLE", "row-shape")
                elif f.upper() != cname:
                    ctx.violation("APPLY-TABLE", "FaceModify::apply", "%s->%s" % (f, cname),
                                  "the update of `%s` is applied to FaceAttrs::%s (expected FaceAttrs::%s): e.g. strike=Some(true) on the default face sets %s and leaves %s clear"
                                  % (f, cname, f.upper(), cname.lower(), f), sites=["%s:%d" % (ap[0], row["line"])])
            fs = [r[0] for r in rows]
            cs = [r[1] for r in rows]
            inj = len(set(fs)) == len(fs) and len(set(cs)) == len(cs)
            cover = sorted(x for x in fs if x) == sorted(bool_fields)
            ctx.instance("APPLY-TABLE", {"injective": inj, "covers": cover, "option_bool_fields": bool_fields})
            if len(set(fs)) != len(fs):
                ctx.violation("APPLY-TABLE", "FaceModify::apply", "duplicate-update", "a FaceModify field occurs twice in the table: %s" % fs, sites=asite)
            if len(set(cs)) != len(cs) and all(f and c and f.upper() == c for f, c, _ in rows):
                ctx.violation("APPLY-TABLE", "FaceModify::apply", "duplicate-flag", "a flag occurs twice in the table: %s" % cs, sites=asite)
            if not cover:
                ctx.violation("APPLY-TABLE", "FaceModify::apply", "coverage", "table fields %s do not cover the Option<bool> fields %s" % (fs, bool_fields), sites=asite)
            # match shape
            ms = [n for n in find_all(loop["body"], lambda n: n.get("k") == "match")]
            shape = {}
            if len(ms) == 1 and expr_text(ms[0]["e"]) == pat_names(loop["pat"])[0]:
                flagv = pat_names(loop["pat"])[1]
                for arm in ms[0]["arms"]:
                    v = pat_value(arm["pat"])
                    b = block_value(arm["body"])
                    if b is not None and b.get("k") == "assign" and unref(b["r"]).get("k") == "mcall":
                        mc = unref(b["r"])
                        shape[str(v)] = (mc["m"], expr_text(b["l"]), expr_text(mc["recv"]), [expr_text(a) for a in mc["args"]] == [flagv])
                    else:
                        shape[str(v)] = None
            ok_shape = shape.get("True") is not None and shape.get("False") is not None and shape["True"][0] == "insert" and shape["False"][0] == "remove" \
                and all(s[1] == s[2] and s[3] for s in (shape["True"], shape["False"]))
            ctx.instance("APPLY-TABLE", {"match": {k: v for k, v in shape.items()}, "ok": ok_shape})
            if not ok_shape:
                ctx.violation("APPLY-TABLE", "FaceModify::apply", "set-clear-arms", "Some(true) must insert and Some(false) must remove the row's flag on face.attrs: %s" % shape, sites=asite)

    # =========================================================== (d) bit layout (before semantics: the semantics read results through these)
    ctx.rule("BIT-LAYOUT", "FaceAttrs: 3 low bits = underline style 0..5 in enum order, flags << 3 single distinct bits, ALL_FLAGS = their union; pack/unpack/underline/from over all 8-bit values", floor=17)

    def FA(b):
        return StructV("FaceAttrs", {"bits": b})

    def ev(fn):
        try:
            return fn()
        except Unsupported as ex:
            return "not evaluable: %s" % ex
    fsite = [FACE]
    ub = ev(lambda: it.const("FaceAttrs", "UNDERLINE_BITS"))
    ctx.instance("BIT-LAYOUT", {"UNDERLINE_BITS": ub})
    if ub != 3:
        ctx.violation("BIT-LAYOUT", "FaceAttrs", "UNDERLINE_BITS", "UNDERLINE_BITS = %s; six styles need the 3 low bits that underline()/pack/unpack use" % ub, sites=fsite)
    uconst = {"Straight": "UNDERLINE", "Double": "UNDERLINE_DOUBLE", "Curly": "UNDERLINE_CURLY", "Dotted": "UNDERLINE_DOTTED", "Dashed": "UNDERLINE_DASHED"}
    for i, s in enumerate(styles):
        if s == "None":
            continue
        cn = uconst.get(s)
        v = ev(lambda: it.const("FaceAttrs", cn)) if cn else None
        good = isinstance(v, StructV) and v.fields.get("bits") == i
        ctx.instance("BIT-LAYOUT", {"const": cn, "value": str(v), "style_index": i})
        if not good:
            ctx.violation("BIT-LAYOUT", "FaceAttrs", "const-%s" % cn, "FaceAttrs::%s = %s, expected bits %d (index of UnderlineStyle::%s)" % (cn, v, i, s), sites=fsite)
    flag_names = ["BOLD", "ITALIC", "BLINK", "REVERSE", "STRIKE"]
    flag_bits = {}
    for cn in flag_names:
        v = ev(lambda: it.const("FaceAttrs", cn))
        b = v.fields.get("bits") if isinstance(v, StructV) else None
        good = isinstance(b, int) and b >= 8 and b & (b - 1) == 0 and b not in flag_bits.values() and b < 256
        ctx.instance("BIT-LAYOUT", {"const": cn, "bits": b})
        if good:
            flag_bits[cn] = b
        else:
            ctx.violation("BIT-LAYOUT", "FaceAttrs", "const-%s" % cn, "FaceAttrs::%s = %s is not a distinct single bit above the 3 underline bits" % (cn, v), sites=fsite)
    af = ev(lambda: it.const("FaceAttrs", "ALL_FLAGS"))
    union = 0
    for b in flag_bits.values():
        union |= b >> 3
    ctx.instance("BIT-LAYOUT", {"ALL_FLAGS": af, "union_of_flags": union})
    if af != union or len(flag_bits) != len(flag_names):
        ctx.violation("BIT-LAYOUT", "FaceAttrs", "ALL_FLAGS", "ALL_FLAGS = %s but the flag constants cover %s (>> 3); remove() masks with `other_flags ^ ALL_FLAGS`" % (af, union), sites=fsite)
    layout_ok = True

    def style_of(raw):
        return EnumV("UnderlineStyle", styles[raw & 7] if (raw & 7) < len(styles) else "None")
    # underline()/unpack over all 256 raw values
    for fn_name, want in (("underline", lambda raw: style_of(raw)), ("unpack", lambda raw: (style_of(raw), raw >> 3))):
        bad = None
        for raw in range(256):
            r = ev(lambda: it.call("FaceAttrs", fn_name, [FA(raw)]))
            if r != want(raw):
                bad = (raw, r, want(raw))
                break
        ctx.instance("BIT-LAYOUT", {"fn": fn_name, "domain": 256, "ok": bad is None})
        if bad:
            layout_ok = False
            ctx.violation("BIT-LAYOUT", "FaceAttrs::" + fn_name, "layout", "%s(bits=%d) = %s, expected %s" % (fn_name, bad[0], bad[1], bad[2]), sites=fsite)
    bad = None
    for i, s in enumerate(styles):
        for fl in range(32):
            r = ev(lambda: it.call("FaceAttrs", "pack", [EnumV("UnderlineStyle", s), fl]))
            if not (isinstance(r, StructV) and r.fields.get("bits") == (i | (fl << 3))):
                bad = bad or (s, fl, r)
    ctx.instance("BIT-LAYOUT", {"fn": "pack", "domain": len(styles) * 32, "ok": bad is None})
    if bad:
        layout_ok = False
        ctx.violation("BIT-LAYOUT", "FaceAttrs::pack", "layout", "pack(%s, %d) = %s, expected bits %d" % (bad[0], bad[1], bad[2], styles.index(bad[0]) | (bad[1] << 3)), sites=fsite)
    bad = None
    for raw in range(256):
        if (raw & 7) >= len(styles):
            continue
        r = ev(lambda: it.call("FaceAttrs", "pack", list(it.call("FaceAttrs", "unpack", [FA(raw)]))))
        if r != FA(raw):
            bad = bad or (raw, r)
    ctx.instance("BIT-LAYOUT", {"fn": "pack(unpack(x)) == x", "domain": 32 * len(styles), "ok": bad is None})
    if bad:
        layout_ok = False
        ctx.violation("BIT-LAYOUT", "FaceAttrs", "roundtrip", "pack(unpack(bits=%d)) = %s" % bad, sites=fsite)
    bad = None
    for i, s in enumerate(styles):
        r = ev(lambda: it.call("FaceAttrs", "from", [EnumV("UnderlineStyle", s)], impl_trait="From"))
        if r != FA(i):
            bad = bad or (s, r)
    ctx.instance("BIT-LAYOUT", {"fn": "From<UnderlineStyle>", "domain": len(styles), "ok": bad is None})
    if bad:
        layout_ok = False
        ctx.violation("BIT-LAYOUT", "FaceAttrs::from", "layout", "FaceAttrs::from(%s) = %s" % bad, sites=fsite)

    # =========================================================== (c) sibling operators
    ctx.rule("SIBLING-OPS", "each XAssign impl of FaceAttrs equals `*self = *self X rhs` on all 256x256 raw values", floor=3)
    pairs = []
    for sym, tr, fn in (("|", "BitOr", "bitor"), ("&", "BitAnd", "bitand"), ("^", "BitXor", "bitxor")):
        a = it.find_fn("FaceAttrs", fn, tr)
        b = it.find_fn("FaceAttrs", fn + "_assign", tr + "Assign")
        if a and b:
            pairs.append((sym, tr, a, b))
    for sym, tr, a, b in pairs:
        bad = None
        nbad = 0
        err = None
        try:
            for x in range(256):
                for y in range(256):
                    r1 = it.call_item(a[2], "FaceAttrs", [FA(x), FA(y)], a[0], memo=False)
                    o = FA(x)
                    it.call_item(b[2], "FaceAttrs", [o, FA(y)], b[0])
                    if r1 != o:
                        nbad += 1
                        # prefer a counterexample over valid styles for the message
                        if bad is None or ((bad[0] & 7) > 5 or (bad[1] & 7) > 5) and (x & 7) <= 5 and (y & 7) <= 5 and (x & 7) and (y & 7) and (x & 7) != (y & 7):
                            bad = (x, y, r1.fields["bits"], o.fields["bits"])
        except Unsupported as ex:
            err = str(ex)
        ctx.instance("SIBLING-OPS", {"op": sym, "pairs": 65536, "disagreeing": nbad, "not_evaluable": err})
        if err:
            ctx.anchor("SIBLING-OPS", tr + "Assign", "operator impl not evaluable: " + err)
            finite_ok = False
        elif bad:
            x, y, r1, r2 = bad

            def show(v):
                return "%s%s" % (style_of(v).name, "+flags%d" % (v >> 3) if v >> 3 else "")
            ctx.violation("SIBLING-OPS", "FaceAttrs", tr + "Assign",
                          "`a %s= b` differs from `a = a %s b` on %d of 65536 raw pairs, e.g. a=%s (bits %d), b=%s (bits %d): `%s=` gives %s (bits %d), `%s` gives %s (bits %d); "
                          "the assign form works on raw bits while the binary form treats the low 3 bits as an underline enum"
                          % (sym, sym, nbad, show(x), x, show(y), y, sym, show(r2), r2, sym, show(r1), r1),
                          sites=["%s:%d" % (b[0], b[2]["line"])], detail={"a": x, "b": y, "binary": r1, "assign": r2})
    if len(pairs) < 3:
        finite_ok = False

    # =========================================================== apply semantics
    ctx.rule("APPLY-SEMANTICS", "FaceModify::apply evaluated for every single-field modification on 192 attribute states x 2 colour states: sets/clears exactly that attribute, reset gives the default face", floor=33)
    if ap is not None and st is not None and layout_ok and len(flag_bits) == len(flag_names):
        ca, cb, cn1, cn2 = ("RGBA", 1, 2, 3, 255), ("RGBA", 4, 5, 6, 255), ("RGBA", 7, 8, 9, 255), ("RGBA", 10, 11, 12, 255)
        states = []
        for u in range(len(styles)):
            for fl in range(32):
                for (fg, bg) in ((NONE, NONE), (some(ca), some(cb))):
                    states.append((fg, bg, u, fl))

        def mk_mod(**kw):
            m = it.default_of("FaceModify")
            for k2, v in kw.items():
                m.fields[k2] = v
            return m

        def run_apply(mod, stt):
            fg, bg, u, fl = stt
            face = StructV("Face", {"fg": fg, "bg": bg, "attrs": FA(u | (fl << 3))})
            r = it.call_item(ap[1], "FaceModify", [mod, face], ap[0], memo=False)
            bits = r.fields["attrs"].fields["bits"]
            return (r.fields["fg"], r.fields["bg"], bits & 7, bits >> 3)

        def check(label, mod, spec, desc):
            bad = None
            err = None
            try:
                for stt in states:
                    got = run_apply(mod, stt)
                    want = spec(stt)
                    if got != want:
                        bad = (stt, got, want)
                        break
            except Unsupported as ex:
                err = str(ex)
            ctx.instance("APPLY-SEMANTICS", {"modification": desc, "states": len(states), "ok": bad is None and err is None})
            if err:
                ctx.anchor("APPLY-SEMANTICS", "apply-not-evaluable", "FaceModify::apply not evaluable: " + err)
                return False
            if bad:
                def face_txt(s):
                    return "{fg=%s, bg=%s, underline=%s, flags=%s}" % ("set" if s[0] != NONE else "-", "set" if s[1] != NONE else "-", styles[s[2]] if s[2] < len(styles) else s[2],
                                                                      "+".join(n.lower() for n in flag_names if s[3] & (flag_bits[n] >> 3)) or "-")
                ctx.violation("APPLY-SEMANTICS", "FaceModify::apply", label,
                              "FaceModify{%s}.apply(%s) = %s, SGR semantics require %s" % (desc, face_txt(bad[0]), face_txt(bad[1]), face_txt(bad[2])), sites=asite,
                              detail={"modification": desc, "start": str(bad[0]), "got": str(bad[1]), "want": str(bad[2])})
                return False
            return True

        check("reset", mk_mod(reset=True), lambda s: (NONE, NONE, 0, 0), "reset: true")
        check("fg", mk_mod(fg=some(cn1)), lambda s: (some(cn1), s[1], s[2], s[3]), "fg: Some(c)")
        check("bg", mk_mod(bg=some(cn2)), lambda s: (s[0], some(cn2), s[2], s[3]), "bg: Some(c)")
        und_ok = True
        for i, sname in enumerate(styles):
            und_ok = check("underline", mk_mod(underline=some(EnumV("UnderlineStyle", sname))), lambda s, i=i: (s[0], s[1], i, s[3]), "underline: Some(%s)" % sname) and und_ok
        flags_ok = True
        for bf in bool_fields:
            bit = flag_bits.get(bf.upper(), 0) >> 3
            for val in (True, False):
                flags_ok = check(bf, mk_mod(**{bf: some(val)}), (lambda s, bit=bit, val=val: (s[0], s[1], s[2], (s[3] | bit) if val else (s[3] & ~bit))), "%s: Some(%s)" % (bf, str(val).lower())) and flags_ok
        if flags_ok and len(bool_fields) <= 4:
            for combo in range(2 ** len(bool_fields)):
                kw = {}
                setm = clr = 0
                for j, bf in enumerate(bool_fields):
                    val = bool(combo >> j & 1)
                    kw[bf] = some(val)
                    if val:
                        setm |= flag_bits[bf.upper()] >> 3
                    else:
                        clr |= flag_bits[bf.upper()] >> 3
                check("flags-combined", mk_mod(**kw), (lambda s, setm=setm, clr=clr: (s[0], s[1], s[2], (s[3] | setm) & ~clr)), ", ".join("%s: Some(%s)" % (k2, str(v[1]).lower()) for k2, v in kw.items()))
        else:
            ctx.note("APPLY-SEMANTICS: combined flag modifications not evaluated because a single-flag row already fails")
        if "underline_color" in fm_fields:
            ctx.note("FaceModify.underline_color has no counterpart in Face (apply has a TODO): nothing to decide for apply; the encoder/decoder tables cover it")
    else:
        ctx.note("APPLY-SEMANTICS not evaluated: bit layout or anchors failed")
        finite_ok = False
    ctx.extra["evaluator_steps"] = it.steps

    # =========================================================== characters
    ctx.rule("CHAR-VERBATIM", "TerminalCommand::Char(c) is written with a plain {} and nothing else", floor=1)
    ca = encoder_arm(src, "Char")
    if ca is None:
        ctx.anchor("CHAR-VERBATIM", "Char-arm")
    else:
        items = emissions(ca[1]["body"])
        good = len(items) == 1 and items[0][0] == "write" and items[0][1] == "{}" and [expr_text(a) for a in items[0][2]] == [ca[2]]
        ctx.instance("CHAR-VERBATIM", {"items": [i[0] for i in items], "ok": good})
        if not good:
            ctx.violation("CHAR-VERBATIM", "TTYEncoder::encode/Char", "template", "Char(c) is not written as exactly the character", sites=[ENC])
    # ... and the decoders' UTF-8 grammar admits the encoding of every character
    utf8_lang(ctx)

    ctx.exhaustive = finite_ok
