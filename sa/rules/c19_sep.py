"""C19 add-on — separator protocol of hand-written list printers (`let mut first = true; if !first {sep}; item; first = false`):
after an item has been written, the flag must be cleared before it is read again, otherwise two items are
printed without a separator and the text no longer parses back (Face Display -> Face::from_str)."""
import re
from ..mir import call_matches, callee_name, op_local, op_const_int
from ..flow import expr


def run_sep(ctx, files=("src/face.rs", "src/keys.rs")):
    prog = ctx.prog
    ctx.rule("SEPARATOR", "list printers: every item write is followed by `first = false` before `first` is read again", floor=2)
    found = 0
    for b in prog.bodies:
        if b.file not in files or b.name != "fmt":
            continue
        # candidate flags: bool user variables assigned const true once and const false at least once
        for l, nm in b.varnames.items():
            if b.local_ty(l) != "bool":
                continue
            defs = b.defs_of(l)
            trues = [d for d in defs if d[1] != "term" and d[2]["k"] == "use" and op_const_int(d[2]["a"]) == 1]
            falses = [d for d in defs if d[1] != "term" and d[2]["k"] == "use" and op_const_int(d[2]["a"]) == 0]
            if len(trues) != 1 or not falses or len(trues) + len(falses) != len(defs):
                continue
            cfg = b.cfg()
            # reads of the flag: switches whose discriminant derives from the flag
            reads = []
            for bb, t in b.terms():
                if t["k"] == "switch" and re.fullmatch(r"(Not\()?var:%s\)?" % re.escape(nm), expr(b, t["d"])):
                    reads.append(bb)
            if not reads:
                continue
            # writes to the formatter
            writes = [(bb, t) for bb, t in b.calls() if call_matches(t, r"Formatter::<'a>::write_fmt$|Formatter::<'a>::write_str$|std::fmt::Write::write_(str|fmt|char)$")]
            sep = []
            items = []
            init_bb = trues[0][0]
            for bb, t in writes:
                if not cfg.dominates(init_bb, bb):
                    continue     # header written before the flag exists
                e = expr(b, t["args"][1]) if len(t["args"]) > 1 else ""
                if re.match(r'^Arguments::from_str\(.{1,6}\)$', e) or (call_matches(t, r"write_str$") and len(e) <= 6):
                    # literal-only short write: a separator candidate if it is guarded by a read of the flag
                    guarded = any(cfg.dominates(r, bb) and r != bb and _edge_guard(cfg, b, r, bb) for r in reads)
                    if guarded:
                        sep.append(bb)
                        continue
                items.append((bb, t))
            if not sep:
                continue
            found += 1
            clear_blocks = {d[0] for d in falses}
            pre = cfg.reachable_from(init_bb, removed=clear_blocks)
            for bb, t in items:
                # violation iff some path init -> item write -> read of the flag contains no `flag = false` at all
                bad = None
                if bb in pre:
                    post = cfg.reachable_from(t["t"], removed=clear_blocks) if t["t"] not in clear_blocks else set()
                    hit = [r for r in reads if r in post]
                    if hit:
                        bad = hit[0]
                ctx.instance("SEPARATOR", {"fn": b.path, "flag": nm, "item_write_line": t["line"], "flag_cleared_before_next_read": bad is None})
                if bad is not None:
                    ctx.violation("SEPARATOR", b.path, "item-%d" % (items.index((bb, t)) + 1),
                                  "after the item written at line %d the separator flag `%s` is not cleared before it is tested again: the next item is printed without a separator and the text does not parse back" % (t["line"], nm),
                                  sites=["%s:%d" % (b.file, t["line"])])
    if found == 0:
        ctx.anchor("SEPARATOR", "list-printer-idiom", "no `first`-flag list printer recognised in %s" % (files,))


def _edge_guard(cfg, body, read_bb, target):
    """target is reachable from exactly one side of the read's switch"""
    t = body.blocks[read_bb]["term"]
    sides = set(t["targets"] + [t["otherwise"]])
    hit = [s for s in sides if target == s or target in cfg.reachable_from(s, removed={read_bb})]
    return len(hit) == 1
