"""C16 — terminal output is delivered in order, exactly once; queue length = readable bytes.
Structural clauses (DESIGN §5 C16): COUPLED(IOQueue chunks->length, pop->offset=0), FRONT-EXHAUSTED (front chunk popped only when
its unread rest <= amount consumed, kept only while offset + amount < its length), single tty
writer, consumed = written, frames_drop keeps the front chunk, poll flushes & loops while pending.

Robustness: every rule that speaks about "function F" works on F with its private single-caller helpers expanded
in place (`inl`, a variant of sa/inline.py that never expands the callees a rule uses as anchors), so extracting or
inlining a helper does not move the constructs out of sight; comparisons, emptiness tests and removal operations are
decided on canonical terms (`sa.flow.expr`) in every equivalent spelling that could be enumerated."""
import copy
import re
from ..mir import call_matches, callee_name, op_local, op_const_int, place_str
from ..flow import resolve_place, arg_place, origins, writes_to_field, expr
from .. import inline as _inline

REMOVERS = r"VecDeque::<T, A>::(pop_front|pop_back|drain|clear|truncate|retain|retain_mut|split_off|remove|swap_remove_back|swap_remove_front|append|extend|insert|push_front|push_back|resize|resize_with)$"
OPTION_REMOVERS = r"VecDeque::<T, A>::(pop_front|pop_back)$"
CHUNK_WRITERS = r"(impl std::io::Write for std::vec::Vec<u8, A>>::(write|write_all|write_vectored)|Vec::<T, A>::(extend_from_slice|push|append|insert|truncate|clear|drain|pop|resize|extend_from_within)|<std::vec::Vec<T, A> as std::iter::Extend<.*>>::extend)$"


CLAIM = {
    "text": "Static necessary conditions of in-order exactly-once delivery, decided on MIR for every path of the anchored functions: "
            "IOQueue content changes are coupled with `length`/`offset` updates, the front chunk is removed only on paths whose branch conditions entail "
            "that it is exhausted (len(front) - offset <= amount) and kept only when offset + amount < len(front) (FRONT-EXHAUSTED, linear path conditions), "
            "the tty is written only from poll's consume_with "
            "closure, the consumed amount is the tty write's return value, frames_drop keeps the chunk in flight, poll flushes first "
            "and loops while output is pending. Kernel schedules and chunk-granularity histories are not decided.",
    "technique": "MIR CFG/effect rules: coupled-update (path) analysis, path-wise linear evaluation of guards, who-may-call, value-origin dataflow, dominators",
    "design_ref": "DESIGN.md §5 C16",
}


# ------------------------------------------------------------------------------------------------
# helpers shared with c17: helper-transparent bodies and meaning-level operand queries
# ------------------------------------------------------------------------------------------------
def inl(prog, path, keep=None, depth=3):
    """Body of `path` with its inlinable callees (sa.inline.inlinable: crate-local plain fn / inherent method, not recursive,
    small, all call sites in this body and its closures) expanded in place, except callees whose path matches `keep` — the
    functions a rule uses as anchors stay calls.  Blocks of an expanded callee carry `inl_from`; the expanded call site is a
    `goto` carrying `inl_call` (see `xcalls`).  The original bodies are unchanged."""
    cache = prog.__dict__.setdefault("_c16_inl_cache", {})
    key = (path, keep, depth)
    if key in cache:
        return cache[key]
    from ..mir import Body
    base = prog.body(path)
    if base is None:
        return None
    root = base.closure_root or base.path
    j = None
    work = list(range(len(base.blocks)))
    level = {i: 0 for i in work}
    blocks, locals_, vars_ = base.blocks, base.locals, base.j["vars"]
    n_inl = 0
    while work:
        bb = work.pop(0)
        blk = blocks[bb]
        t = blk["term"]
        if t["k"] != "call" or level.get(bb, 0) >= depth or blk["cleanup"]:
            continue
        f = t["fn"]
        cpath = f.get("resolved") if f.get("resolved_local") else (f.get("path") if f.get("local") else None)
        if not cpath or (keep and re.search(keep, cpath)):
            continue
        callee = prog.body(cpath)
        if callee is None or len(t["args"]) != callee.arg_count or not _inline.inlinable(prog, callee, root):
            continue
        if j is None:
            j = copy.deepcopy(base.j)
            blocks, locals_, vars_ = j["blocks"], j["locals"], j["vars"]
            blk = blocks[bb]
            t = blk["term"]
        lo, bo = len(locals_), len(blocks)
        locals_.extend(copy.deepcopy(callee.locals))
        for v in callee.j["vars"]:
            vars_.append({"name": v["name"], "place": _inline._shift(v["place"], lo, 0)})
        for k, a in enumerate(t["args"]):
            blk["stmts"].append({"k": "assign", "place": {"l": lo + 1 + k, "p": []}, "rv": {"k": "use", "a": a}, "line": t.get("line", 0),
                                 "exp": False, "expk": "", "inl_arg": callee.path})
        dest, target, line = t["dest"], t["t"], t.get("line", 0)
        blk["term"] = {"k": "goto", "t": bo, "inl_call": callee.path, "inl_n": len(callee.blocks), "inl_dest": dest, "inl_ret_t": target, "line": line}
        for i, cb in enumerate(callee.blocks):
            nb = _inline._shift(cb, lo, bo)
            nb["inl_from"] = cb.get("inl_from") or callee.path
            if nb["term"]["k"] == "return":
                nb["stmts"].append({"k": "assign", "place": dest, "rv": {"k": "use", "a": {"k": "move", "place": {"l": lo, "p": []}}}, "line": line,
                                    "exp": False, "expk": "", "inl_ret": callee.path})
                nb["term"] = {"k": "goto", "t": target} if target >= 0 else {"k": "unreachable"}
            blocks.append(nb)
            level[bo + i] = level.get(bb, 0) + 1
            work.append(bo + i)
        n_inl += 1
    if j is None:
        cache[key] = base
        return base
    j["inlined_calls"] = n_inl
    nb = Body(j, prog)
    cache[key] = nb
    return nb


def origin(body, bb):
    """def path of the function the block was written in"""
    return body.blocks[bb].get("inl_from") or body.path


def family(body):
    """paths of the body and of every helper expanded into it"""
    return {body.path} | {b["inl_from"] for b in body.blocks if b.get("inl_from")}


def xcalls(body):
    """(bb, call terminator) of every non-cleanup call, including the expanded ones (as a call-shaped pseudo terminator whose
    successor `t` is the first block of the expansion and whose `ret_t` is the block the original call returned to)"""
    for i, blk in enumerate(body.blocks):
        if blk["cleanup"]:
            continue
        t = blk["term"]
        if t["k"] == "call":
            yield i, t
        elif t["k"] == "goto" and t.get("inl_call"):
            p = t["inl_call"]
            yield i, {"k": "call", "fn": {"path": p, "resolved": p, "local": True, "resolved_local": True, "generics": [], "resolved_generics": []},
                      "args": [s["rv"]["a"] for s in blk["stmts"] if s.get("inl_arg") == p], "dest": t.get("inl_dest"), "t": t["t"],
                      "ret_t": t.get("inl_ret_t"), "unwind": -1, "line": t.get("line", 0), "exp": False, "expanded": True}


def const_int(body, operand):
    """integer value of an operand: a literal, a named constant, or a local that only ever holds one constant"""
    v = op_const_int(operand)
    if v is not None:
        return v
    og = origins(body, operand)
    if len(og) == 1:
        o = next(iter(og))
        if o[0] == "const":
            try:
                return int(o[1])
            except (TypeError, ValueError):
                return None
    return None


def value_def(body, operand):
    """("agg", rvalue) / ("call", terminator) that defines the operand's value, through moves, copies and reborrow-free
    argument passing of expanded helpers"""
    l = op_local(operand)
    seen = set()
    while l is not None and l not in seen:
        seen.add(l)
        ds = body.defs_of(l)
        if len(ds) != 1:
            return None
        bb, si, rv = ds[0]
        if si == "term":
            return ("call", rv)
        if rv["k"] == "agg":
            return ("agg", rv)
        if rv["k"] == "use":
            l = op_local(rv["a"])
            continue
        return None
    return None


def hosts(prog, path, depth=0):
    """bodies that effectively execute the code of `path`: the body itself, or — when it is a helper that `inl` expands into its
    only caller root — the bodies that call it (transitively)"""
    b = prog.body(path)
    if b is None or b.kind == "Closure" or depth > 3:
        return {path}
    cs = _inline.callers_of(prog, path)
    roots = set()
    for c in cs:
        cb = prog.body(c)
        roots.add((cb.closure_root or cb.path) if cb is not None else c)
    if len(roots) != 1 or not _inline.inlinable(prog, b, next(iter(roots))):
        return {path}
    out = set()
    for c in cs:
        ci = inl(prog, c)
        if ci is None or path not in family(ci):
            return {path}
        out |= hosts(prog, c, depth + 1)
    return out or {path}


def ret_locals(body):
    """locals that hold a return value: _0 and the return place of every expanded helper"""
    out = {0}
    for i, si, st in body.assigns():
        if st.get("inl_ret"):
            out.add(st["rv"]["a"]["place"]["l"])
    return out


def err_blocks(body):
    """blocks in which the function — or an expanded helper — produces its error result (`Err(..)` / `?` residual).  After expansion a
    helper's error return is followed by the caller's own `?`, whose Continue edge is infeasible there: rules cut paths at these blocks."""
    rl = ret_locals(body)
    out = set()
    for i, blk in enumerate(body.blocks):
        if blk["cleanup"]:
            continue
        for st in blk["stmts"]:
            if st["k"] == "assign" and not st["place"]["p"] and st["place"]["l"] in rl and st["rv"]["k"] == "agg" and st["rv"].get("variant") in ("Err", "None"):
                out.add(i)
        t = blk["term"]
        if t["k"] == "call" and not t["dest"]["p"] and t["dest"]["l"] in rl and call_matches(t, r"FromResidual.*::from_residual$"):
            out.add(i)
    return out


def cmp_parts(e):
    """('Gt', lhs, rhs) of a canonical comparison term, with any outer Not(..) folded into the operator; None otherwise"""
    neg = False
    while e.startswith("Not(") and e.endswith(")"):
        e, neg = e[4:-1], not neg
    m = re.match(r"^(Eq|Ne|Gt|Lt|Ge|Le)\(", e)
    if not m or not e.endswith(")"):
        return None
    inner = e[len(m.group(0)):-1]
    d = 0
    cut = None
    for i, ch in enumerate(inner):
        if ch in "([{":
            d += 1
        elif ch in ")]}":
            d -= 1
        elif ch == "," and d == 0 and inner[i + 1:i + 2] == " ":
            cut = i
            break
    if cut is None:
        return None
    op = m.group(1)
    if neg:
        op = {"Eq": "Ne", "Ne": "Eq", "Gt": "Le", "Le": "Gt", "Lt": "Ge", "Ge": "Lt"}[op]
    return op, inner[:cut], inner[cut + 2:]


def size_test(e, size_rx):
    """For a bool term comparing a size S (a term matching size_rx) with a constant: the least value of S when the term is true and
    when it is false, as (min_if_true, max_if_true, min_if_false, max_if_false) with None = unbounded.  None if not such a test."""
    c = cmp_parts(e)
    if c is None:
        return None
    op, a, b = c
    if re.fullmatch(size_rx, b) and re.fullmatch(r"\d+", a):
        a, b = b, a
        op = {"Gt": "Lt", "Lt": "Gt", "Ge": "Le", "Le": "Ge"}.get(op, op)
    if not (re.fullmatch(size_rx, a) and re.fullmatch(r"\d+", b)):
        return None
    n = int(b)
    if op == "Gt":
        return (n + 1, None, 0, n)
    if op == "Ge":
        return (n, None, 0, n - 1)
    if op == "Lt":
        return (0, n - 1, n, None)
    if op == "Le":
        return (0, n, n + 1, None)
    if op == "Eq":
        return (n, n, (1 if n == 0 else 0), None)
    if op == "Ne":
        return ((1 if n == 0 else 0), None, n, n)
    return None


def bool_edges(t):
    """(target when the switched bool is true, target when false)"""
    if t["k"] != "switch" or t["vals"] != ["0"]:
        return None
    return t["otherwise"], t["targets"][0]


def ioqueue_bodies(prog):
    return [b for b in prog.bodies if b.impl_self == "common::IOQueue" and b.kind == "AssocFn"]


def some_edge_block(body, bb, t):
    """for a call returning Option: the block entered when the result is Some (or None if the
    result is not matched right after)"""
    dest = t["dest"]
    nxt = t["t"]
    if nxt < 0:
        return None
    blk = body.blocks[nxt]
    for s in blk["stmts"]:
        if s["k"] == "assign" and s["rv"]["k"] == "discr" and s["rv"]["place"]["l"] == dest["l"]:
            tt = blk["term"]
            if tt["k"] == "switch" and op_local(tt["d"]) == s["place"]["l"]:
                for v, tg in zip(tt["vals"], tt["targets"]):
                    if v == "1":
                        return tg
                if "0" in tt["vals"] and len(tt["vals"]) == 1:
                    return tt["otherwise"]
    return None


def range_start(body, operand):
    """constant start of a Range/RangeFrom/RangeInclusive argument; None for RangeTo/RangeFull/unknown"""
    d = value_def(body, operand)
    if d and d[0] == "agg" and re.search(r"::(RangeFrom|Range)$", d[1].get("adt", "")):
        return const_int(body, d[1]["fields"][0])
    if d and d[0] == "call" and call_matches(d[1], r"RangeInclusive::<Idx>::new$"):
        return const_int(body, d[1]["args"][0])
    return None


def keeps_front(body, cfg, bb, t, chunks):
    """does this removal on the chunk deque provably leave element 0 in place?  (ok, k) — k = index of the first element removed"""
    nm = callee_name(t).split("::")[-1]
    if nm == "drain":
        st = range_start(body, t["args"][1])
        return (st is not None and st >= 1), st
    if nm in ("truncate", "split_off", "remove"):
        k = const_int(body, t["args"][1])
        return (k is not None and k >= 1), k
    if nm == "pop_back":
        # only under a dominating test that the deque holds at least two chunks
        size_rx = r"VecDeque::len\(%s\)" % re.escape(chunks)
        for s, tt in body.terms():
            if tt["k"] != "switch" or not cfg.dominates(s, bb) or s == bb:
                continue
            st = size_test(expr(body, tt["d"]), size_rx)
            ed = bool_edges(tt)
            if st is None or ed is None:
                continue
            for tgt, lo in ((ed[0], st[0]), (ed[1], st[2])):
                if lo is not None and lo >= 2 and cfg.edge_dominates(s, tgt, bb):
                    # nothing else shrinks the deque between the test and the pop
                    return True, None
        return False, None
    return False, None


# ------------------------------------------------------------------------------------------------
# FRONT-EXHAUSTED: path-wise symbolic evaluation of an IOQueue method over linear forms
# ------------------------------------------------------------------------------------------------
OFFSET = "arg1.offset"          # atom: self.offset on entry
FRONT = "len(front)"            # atom: full length of the front chunk on entry (0 when the queue holds no chunk)
_FRONT_OPT = r"VecDeque::(?:front|front_mut)\(arg1\.chunks\)|VecDeque::(?:get|get_mut)\(arg1\.chunks, 0\)"
_FRONT_REF = (r"(?:(?:%s)@Some\.0|Option::(?:unwrap|expect|unwrap_unchecked)\((?:%s)(?:, [^()]*)?\)|Index(?:Mut)?::index(?:_mut)?\(arg1\.chunks, 0\))" % (_FRONT_OPT, _FRONT_OPT))
_WRAP = r"(?:Vec::as_slice|Vec::as_mut_slice|Deref::deref|DerefMut::deref_mut|AsRef::as_ref|Borrow::borrow)"
FRONT_WHOLE_RX = r"(?:%s\()*%s\)*" % (_WRAP, _FRONT_REF)
FRONT_REST_RX = r"IOQueue::as_slice\(arg1\)|Index::index\((?:%s\()*%s\)*, RangeFrom\{start: arg1\.offset\}\)" % (_WRAP, _FRONT_REF)
LEN_FN_RX = r"(Vec::<T, A>|slice::<impl \[T\]>)::len$"
FRONT_REMOVING = r"VecDeque::<T, A>::(pop_front|pop_back|drain|clear|truncate|retain|retain_mut|split_off|remove|swap_remove_back|swap_remove_front)$"


def _balanced(s):
    d = 0
    for ch in s:
        d += ch == "("
        d -= ch == ")"
        if d < 0:
            return False
    return d == 0


def lf_add(a, b, k=1):
    out = dict(a)
    for x, c in b.items():
        out[x] = out.get(x, 0) + k * c
    return {x: c for x, c in out.items() if c != 0 or x == ""}


def lf_text(a):
    parts = []
    for x in sorted(a, key=lambda s: (s == "", s)):
        c = a[x]
        if c == 0:
            continue
        parts.append(("%+d" % c) if x == "" else ("%s%s" % ({1: "+", -1: "-"}.get(c, "%+d*" % c), x)))
    return " ".join(parts).lstrip("+") or "0"


def lf_implies(cons, goal):
    """Do the path constraints (each `form <= c`, all atoms being unsigned quantities) entail goal = (form, d), i.e. `form <= d`?
    Sufficient test, no search: some constraint — or the empty one, or the sum of two — differs from the goal only by terms that
    cannot be positive."""
    g, d = goal
    cands = [({}, 0)] + list(cons) + [(lf_add(a, b), ca + cb) for i, (a, ca) in enumerate(cons) for (b, cb) in cons[i + 1:]]
    for f, c in cands:
        diff = lf_add(g, f, -1)
        if all(v <= 0 for x, v in diff.items() if x != "") and c + diff.get("", 0) <= d:
            return True
    return False


def len_fn(prog, body, f):
    """is the function value `f` (fn item or closure) `|chunk| chunk.len()`?"""
    if f.get("k") == "const":
        fn = f["c"].get("fn")
        return bool(fn and re.search(LEN_FN_RX, fn["path"]))
    d = value_def(body, f)
    if d and d[0] == "agg" and d[1].get("ak") == "closure":
        cb = prog.body(d[1]["def"])
        if cb is None:
            return False
        rets = [s for i, si, s in cb.assigns() if s["place"]["l"] == 0 and not s["place"]["p"]]
        defs0 = cb.defs_of(0)
        if len(defs0) != 1:
            return False
        e = expr(cb, {"k": "copy", "place": {"l": 0, "p": []}})
        return bool(re.fullmatch(r"(?:Vec|slice)::len\((?:%s\()*arg2\)*\)" % _WRAP, e)) and _balanced(e)
    return False


class PathEval:
    """Forward evaluation of one acyclic path of an IOQueue method (helpers expanded) over linear forms of the entry values
    len(front chunk), self.offset and opaque unsigned terms; collects the branch conditions as linear constraints."""

    def __init__(self, prog, body):
        self.prog, self.b = prog, body
        self.env = {}           # local -> linear form
        self.cmp = {}           # local -> (op, lhs form, rhs form)
        self.dis = {}           # local -> canonical term of the place whose discriminant it holds
        self.off = {OFFSET: 1}  # current value of self.offset
        self.cons = []          # (form, c): form <= c
        self.removed = False    # a chunk removal that may take the front chunk has been executed
        self.events = []

    def clone(self):
        o = PathEval(self.prog, self.b)
        o.env, o.cmp, o.dis, o.off = dict(self.env), dict(self.cmp), dict(self.dis), dict(self.off)
        o.cons, o.removed, o.events = list(self.cons), self.removed, list(self.events)
        return o

    def is_offset(self, place):
        return resolve_place(self.b, place) == "(*_1).offset"

    def val(self, op):
        if op["k"] == "const":
            v = op_const_int(op)
            return {"": v} if v is not None else {expr(self.b, op): 1}
        pl = op["place"]
        if self.is_offset(pl):
            return dict(self.off)
        l, pr = pl["l"], [e for e in pl["p"] if e["k"] != "deref"]
        if l in self.env and (not pr or (len(pr) == 1 and pr[0]["k"] == "field" and pr[0].get("i", 0) == 0 and pr[0].get("name") in ("0", None))):
            return dict(self.env[l])
        e = expr(self.b, op)
        if re.fullmatch(r"\d+", e):
            return {"": int(e)}
        return {e: 1}

    def stmt(self, s):
        if s["k"] != "assign":
            return
        pl, rv = s["place"], s["rv"]
        if pl["p"]:
            if self.is_offset(pl):
                v = self.val(rv["a"]) if rv["k"] == "use" else {"?offset": 1}
                self.off = v
                self.events.append(("offset", v, s.get("line", 0)))
            return
        l = pl["l"]
        self.env.pop(l, None), self.cmp.pop(l, None), self.dis.pop(l, None)
        k = rv["k"]
        if k == "use":
            a = rv["a"]
            if a["k"] != "const" and not a["place"]["p"]:
                sl = a["place"]["l"]
                if sl in self.cmp:
                    self.cmp[l] = self.cmp[sl]
                if sl in self.dis:
                    self.dis[l] = self.dis[sl]
            self.env[l] = self.val(a)
        elif k == "bin":
            op = rv["op"].replace("WithOverflow", "").replace("Unchecked", "")
            a, b = self.val(rv["a"]), self.val(rv["b"])
            if op == "Add":
                self.env[l] = lf_add(a, b)
            elif op == "Sub":
                self.env[l] = lf_add(a, b, -1)     # an underflow panics / is out of scope
            elif op in ("Gt", "Lt", "Ge", "Le", "Eq", "Ne"):
                self.cmp[l] = (op, a, b)
            elif op == "Mul" and set(a) <= {""}:
                self.env[l] = {x: c * a.get("", 0) for x, c in b.items()}
            elif op == "Mul" and set(b) <= {""}:
                self.env[l] = {x: c * b.get("", 0) for x, c in a.items()}
        elif k == "un" and rv["op"] == "Not":
            a = rv["a"]
            if a["k"] != "const" and not a["place"]["p"] and a["place"]["l"] in self.cmp:
                op, x, y = self.cmp[a["place"]["l"]]
                self.cmp[l] = ({"Eq": "Ne", "Ne": "Eq", "Gt": "Le", "Le": "Gt", "Lt": "Ge", "Ge": "Lt"}[op], x, y)
        elif k == "discr":
            self.dis[l] = place_expr_of(self.b, rv["place"])

    def call(self, t):
        """effect of a call terminator on its destination"""
        dest = t["dest"]
        nm = callee_name(t) or ""
        b = self.b
        if dest["p"]:
            return
        l = dest["l"]
        self.env.pop(l, None), self.cmp.pop(l, None), self.dis.pop(l, None)
        args = t["args"]
        if re.search(LEN_FN_RX, nm) and args:
            e = expr(b, args[0])
            if re.fullmatch(FRONT_WHOLE_RX, e) and _balanced(e):
                self.env[l] = {FRONT: 1}
                return
            if re.fullmatch(FRONT_REST_RX, e) and _balanced(e):
                self.env[l] = lf_add({FRONT: 1}, self.off, -1)
                return
        if re.search(r"Option::<T>::(unwrap_or|unwrap_or_default)$", nm) and args:
            d = value_def(b, args[0])
            zero = len(args) == 1 or self.val(args[1]) == {"": 0}
            if zero and d and d[0] == "call" and call_matches(d[1], r"Option::<T>::map$") and \
                    re.fullmatch(_FRONT_OPT, expr(b, d[1]["args"][0])) and len_fn(self.prog, b, d[1]["args"][1]):
                self.env[l] = {FRONT: 1}
                return
        if re.search(r"Option::<T>::map_or$", nm) and len(args) == 3:
            if self.val(args[1]) == {"": 0} and re.fullmatch(_FRONT_OPT, expr(b, args[0])) and len_fn(self.prog, b, args[2]):
                self.env[l] = {FRONT: 1}
                return
        if re.search(r"Option::<T>::map_or_else$", nm):
            pass
        self.env[l] = {expr(b, {"k": "copy", "place": dest}): 1}

    def edge(self, t, y):
        """constraint contributed by leaving a switch towards block y"""
        if t["k"] != "switch" or t["d"]["k"] == "const" or t["d"]["place"]["p"]:
            return
        l = t["d"]["place"]["l"]
        hit = [v for v, tg in zip(t["vals"], t["targets"]) if tg == y]
        other = t["otherwise"] == y
        if (hit and other) or len(hit) > 1:
            return
        if l in self.cmp and t["vals"] == ["0"]:
            op, a, b = self.cmp[l]
            if hit:
                op = {"Eq": "Ne", "Ne": "Eq", "Gt": "Le", "Le": "Gt", "Lt": "Ge", "Ge": "Lt"}[op]
            ab, ba = lf_add(a, b, -1), lf_add(b, a, -1)

            def le(f, c):       # f <= c, constant part moved to the right
                f = dict(f)
                k = f.pop("", 0)
                self.cons.append((f, c - k))
            if op == "Gt":
                le(ba, -1)
            elif op == "Ge":
                le(ba, 0)
            elif op == "Lt":
                le(ab, -1)
            elif op == "Le":
                le(ab, 0)
            elif op == "Eq":
                le(ab, 0), le(ba, 0)
        elif l in self.dis and re.fullmatch(_FRONT_OPT, self.dis[l]):
            if hit:
                variant = hit[0]
            elif len(t["vals"]) == 1 and t["vals"][0] in ("0", "1"):
                variant = "1" if t["vals"][0] == "0" else "0"
            else:
                return
            if variant == "0":      # no front chunk: its length is 0 by definition
                self.cons.append(({FRONT: 1}, 0))


def place_expr_of(body, place):
    from ..flow import place_expr
    return place_expr(body, place)


def front_paths(prog, body, limit=4000):
    """all acyclic entry->return paths of the body (unwind and panic edges excluded), each evaluated by PathEval;
    yields the final evaluator of each path; raises OverflowError when there are too many"""
    out = []
    n = [0]

    def succs(t):
        k = t["k"]
        if k == "goto":
            return [t["t"]]
        if k == "switch":
            return list(dict.fromkeys(list(t["targets"]) + [t["otherwise"]]))
        if k in ("call", "assert", "drop"):
            return [t["t"]] if t.get("t", -1) is not None and t.get("t", -1) >= 0 else []
        return []

    def go(bb, ev, seen):
        n[0] += 1
        if n[0] > limit:
            raise OverflowError
        blk = body.blocks[bb]
        for s in blk["stmts"]:
            ev.stmt(s)
        t = blk["term"]
        if t["k"] == "return":
            ev.events.append(("return", dict(ev.off), bb))
            out.append(ev)
            return
        if t["k"] == "call":
            if call_matches(t, FRONT_REMOVING) and t["args"] and arg_place(body, t, 0) == "(*_1).chunks":
                ev.events.append(("remove", bb, t, list(ev.cons), dict(ev.off), ev.removed))
            ev.call(t)
        nx = [y for y in succs(t) if y not in seen and not body.blocks[y]["cleanup"]]
        for i, y in enumerate(nx):
            e2 = ev.clone() if i < len(nx) - 1 else ev
            e2.edge(t, y)
            go(y, e2, seen | {y})

    go(0, PathEval(prog, body), {0})
    return out


def run(ctx):
    prog = ctx.prog
    ctx.explanation = (
        "Decides structural necessary conditions of C16 from MIR: (a) in every IOQueue method each operation that removes or adds "
        "bytes of `chunks` lies only on paths that also assign `length`, `length` is only ever updated relative to its old value, and "
        "popping the front chunk resets `offset`; (a2) FRONT-EXHAUSTED: every path of an IOQueue method that removes the front chunk carries branch conditions "
        "which, as linear inequalities over {len(front chunk), offset, amount} (len(as_slice()) = len(front) - offset; helpers expanded; either branch polarity, "
        "match/if/early return, hoisted locals), entail len(front) - offset <= amount, and every path that advances offset and keeps the chunk entails "
        "new offset < len(front) - otherwise bytes of a partially written chunk are dropped, or an exhausted chunk stays queued; (b) the only "
        "body that writes to the tty fd is the closure handed to consume_with in UnixTerminal::poll (execute/Write::write/image "
        "handlers/position write only to write_queue); (c) the amount consumed from the queue is the value returned by the tty write; "
        "(d) frames_drop keeps the front chunk (every removal starts at a constant index >= 1); (e) poll flushes first and keeps looping while the "
        "queue is non-empty. Private single-caller helpers are expanded into their caller before a rule looks at it. "
        "NOT decided: kernel schedules, whole-chunk granularity while the last chunk is open.")
    ctx.assume("MIR of the dev profile is the semantics of the code; unwind paths are out of scope")
    ctx.assume("FRONT-EXHAUSTED reads IOQueue::as_slice() as front_chunk[offset..] (empty without a chunk); arithmetic overflow panics are out of scope")

    # ---------------- (a) COUPLED -------------------------------------------------------------
    ctx.rule("COUPLED-length", "content-changing op on IOQueue.chunks lies only on paths that assign IOQueue.length; length is updated relative to its old value", floor=4)
    ctx.rule("COUPLED-offset", "pop of the front chunk is coupled with offset = 0; offset writes are coupled with length writes", floor=2)
    bodies = ioqueue_bodies(prog)
    if len(bodies) < 10:
        ctx.anchor("COUPLED-length", "IOQueue-methods", "expected the IOQueue impl blocks (>=10 methods), found %d" % len(bodies))
    ioq_paths = {b.path for b in bodies}
    for b0 in bodies:
        # a private helper that is expanded into its only caller, itself an IOQueue method, is judged there (with its context)
        hs = hosts(prog, b0.path)
        if hs != {b0.path} and all((prog.body(h) is not None and (prog.body(h).closure_root or h) in ioq_paths) for h in hs):
            ctx.instance("COUPLED-length", {"fn": b0.path, "judged_in": sorted(hs)}, nontrivial=False)
            continue
        b = inl(prog, b0.path) or b0
        cfg = b.cfg()
        lw = {i for (i, si, rp, s) in writes_to_field(b, r"^\(\*_1\)\.length$")}
        ow = writes_to_field(b, r"^\(\*_1\)\.offset$")
        for (i, si, rp, s) in writes_to_field(b, r"^\(\*_1\)\.length$"):
            if si == "term":
                e = "call"
            else:
                rv = s["rv"]
                e = expr(b, rv["a"]) if rv["k"] == "use" else ("%s(%s, %s)" % (rv["op"].replace("WithOverflow", ""), expr(b, rv["a"]), expr(b, rv["b"])) if rv["k"] == "bin" else rv["k"])
            rel = bool(re.match(r"^(Add|Sub)\(arg1\.length, ", e)) or bool(re.match(r"^(Add)\(.*, arg1\.length\)$", e)) \
                or bool(re.match(r"^(usize|num)::.*(saturating|wrapping|checked|unchecked)_(add|sub)\(arg1\.length, ", e))
            ctx.instance("COUPLED-length", {"fn": origin(b, i), "length_update": e[:120], "relative": rel, "site": "%s:%d" % (b.file, s.get("line", 0))})
            if not rel:
                ctx.violation("COUPLED-length", origin(b, i), "length-absolute",
                              "IOQueue.length is overwritten with %s instead of being adjusted by the bytes added/removed: the bytes already consumed from the front chunk "
                              "(offset) are counted again, len() no longer equals the readable bytes" % e[:100], sites=["%s:%d" % (b.file, s.get("line", 0))])
        for bb, t in b.calls():
            is_remover = call_matches(t, REMOVERS)
            is_chunk_writer = call_matches(t, CHUNK_WRITERS)
            if not (is_remover or is_chunk_writer):
                continue
            recv = arg_place(b, t, 0) if t["args"] else None
            if is_remover:
                if recv != "(*_1).chunks":
                    continue
            else:
                # receiver must derive from self.chunks (back_mut/front_mut/.. element)
                if "(*_1).chunks" not in (recv or ""):
                    continue
            name = callee_name(t).split("::")[-1]
            if name in ("push_back", "push_front"):
                og = origins(b, t["args"][1])
                if og and all(o[0] == "call" and re.search(r"Default>::default$|Vec::<T>::new$", o[2]) for o in og):
                    ctx.instance("COUPLED-length", {"fn": origin(b, bb), "op": name + "(empty chunk)", "site": "%s:%d" % (b.file, t["line"]), "exempt": "adds no bytes"}, nontrivial=False)
                    continue
            anchor_bb = bb
            if call_matches(t, OPTION_REMOVERS):
                sb = some_edge_block(b, bb, t)
                if sb is not None:
                    anchor_bb = sb
            # exists a path entry -> anchor_bb -> return avoiding all length writes?
            pre = cfg.reachable_from(0, removed=lw)
            post = cfg.reachable_from(anchor_bb, removed=lw - {anchor_bb}) if anchor_bb not in lw else set()
            bad = (anchor_bb in pre or bb in pre) and any(r in post for r in cfg.returns) and anchor_bb not in lw
            ctx.instance("COUPLED-length", {"fn": origin(b, bb), "op": name, "site": "%s:%d" % (b.file, t["line"]), "length_writes_in_blocks": sorted(lw)})
            if bad:
                ctx.violation("COUPLED-length", origin(b, bb), name,
                              "%s changes the contents of IOQueue.chunks on a path that never updates IOQueue.length: len() no longer equals the readable bytes" % origin(b, bb),
                              sites=["%s:%d" % (b.file, t["line"])])
            if re.search(r"pop_front$", callee_name(t)):
                # every path through the Some edge passes offset = 0 (before or after the pop)
                zero_w = {i for (i, si, rp, s) in ow if si != "term" and s.get("rv", {}).get("k") == "use" and const_int(b, s["rv"]["a"]) == 0}
                pre_z = cfg.reachable_from(0, removed=zero_w)
                ok, wit = cfg.must_pass(zero_w, start=anchor_bb)
                if not ok and anchor_bb not in pre_z and bb not in pre_z:
                    ok = True     # reset on every path leading to the pop, and nothing advances it in between (checked below)
                    adv = {i for (i, si, rp, s) in ow if i not in zero_w}
                    if any(cfg.dominates(z, a) and a in cfg.reaches({bb}) for z in zero_w for a in adv):
                        ok = False
                ctx.instance("COUPLED-offset", {"fn": origin(b, bb), "op": "pop_front -> offset = 0", "site": "%s:%d" % (b.file, t["line"])})
                if not ok:
                    ctx.violation("COUPLED-offset", origin(b, bb), "pop_front",
                                  "front chunk popped but offset is not reset to 0 on path %s" % wit, sites=["%s:%d" % (b.file, t["line"])])
        for (i, si, rp, s) in ow:
            if si != "term" and s.get("rv", {}).get("k") == "use" and const_int(b, s["rv"]["a"]) == 0:
                continue
            # non-zero offset write: must be coupled with a length write on every path through it
            post = cfg.reachable_from(i, removed=lw - {i})
            bad = i not in lw and any(r in post for r in cfg.returns) and not cfg.must_pass(lw, start=0, exits=[i])[0]
            ctx.instance("COUPLED-offset", {"fn": origin(b, i), "op": "offset advance", "site": "%s:%d" % (b.file, s["line"])})
            if bad:
                ctx.violation("COUPLED-offset", origin(b, i), "offset-advance",
                              "offset advanced on a path that does not reduce length", sites=["%s:%d" % (b.file, s["line"])])

    # ---------------- (a2) FRONT-EXHAUSTED ----------------------------------------------------------
    ctx.rule("FRONT-EXHAUSTED", "the front chunk leaves IOQueue.chunks only when it is exhausted: on every path of an IOQueue method that reaches a removal which may take "
                                "chunk 0 (pop_front, or any removal not proven to start at index >= 1) the branch conditions entail len(front) - offset <= amount consumed; "
                                "on every path that keeps the chunk and advances offset the conditions entail new offset < len(front) (as_slice stays non-empty and in bounds). "
                                "Conditions are evaluated path-wise as linear inequalities over {len(front), offset, amount}; len(as_slice()) counts as len(front) - offset", floor=2)
    n_pop = 0
    for b0 in bodies:
        hs = hosts(prog, b0.path)
        if hs != {b0.path} and all((prog.body(h) is not None and (prog.body(h).closure_root or h) in ioq_paths) for h in hs):
            continue
        b = inl(prog, b0.path, keep=r"^common::IOQueue::as_slice$") or b0
        touches = any(call_matches(t, FRONT_REMOVING) and t["args"] and arg_place(b, t, 0) == "(*_1).chunks" for bb, t in b.calls()) \
            or any(not (si != "term" and s.get("rv", {}).get("k") == "use" and const_int(b, s["rv"]["a"]) == 0) for (i, si, rp, s) in writes_to_field(b, r"^\(\*_1\)\.offset$"))
        if not touches:
            continue
        cfg = b.cfg()
        live = {i for i, blk in enumerate(b.blocks) if not blk["cleanup"]}
        in_loop = set()
        for h, lb in cfg.loops().items():
            in_loop |= set(lb)
        sensitive = {i for (i, si, rp, s) in writes_to_field(b, r"^\(\*_1\)\.offset$")}
        for bb, t in b.calls():
            if call_matches(t, FRONT_REMOVING) and t["args"] and arg_place(b, t, 0) == "(*_1).chunks" and \
                    (callee_name(t).endswith("pop_front") or not keeps_front(b, cfg, bb, t, "arg1.chunks")[0]):
                sensitive.add(bb)
        if sensitive & in_loop & live:
            ctx.anchor("FRONT-EXHAUSTED", "%s/loop" % b0.path, "%s removes chunks or advances offset inside a loop: the exhaustion condition is not decided for loops" % b0.path)
            continue
        try:
            paths = front_paths(prog, b)
        except OverflowError:
            ctx.anchor("FRONT-EXHAUSTED", "%s/paths" % b0.path, "too many paths in %s" % b0.path)
            continue
        # the amount consumed: the one linear form by which offset is advanced in this method (0 when it never is)
        deltas = {}
        for ev in paths:
            for e in ev.events:
                if e[0] == "offset" and e[1] != {"": 0}:
                    d = lf_add(e[1], {OFFSET: 1}, -1)
                    deltas[lf_text(d)] = d
        if len(deltas) > 1:
            ctx.anchor("FRONT-EXHAUSTED", "%s/amount" % b0.path, "offset is advanced by different amounts (%s): consumed amount not identified" % sorted(deltas))
            continue
        amount = next(iter(deltas.values())) if deltas else {"": 0}
        seen_keys = set()
        for ev in paths:
            removed_before = False
            popped = False
            for e in ev.events:
                if e[0] == "remove":
                    _, bb, t, cons, off, _r = e
                    nm = callee_name(t).split("::")[-1]
                    if nm != "pop_front":
                        ok, k = keeps_front(b, cfg, bb, t, "arg1.chunks")
                        if ok:
                            continue
                    n_pop += 1
                    popped = True
                    # remaining bytes of the front chunk <= amount consumed:  len(front) - offset - amount <= 0
                    goal = lf_add(lf_add({FRONT: 1}, {OFFSET: 1}, -1), amount, -1)
                    gk = goal.pop("", 0)
                    proven = (not removed_before) and nm == "pop_front" and lf_implies(cons, (goal, -gk))
                    removed_before = True
                    guard = " && ".join("%s <= %d" % (lf_text(f), c) for f, c in cons) or "true"
                    ik = (origin(b, bb), nm, guard, proven)
                    if ik not in seen_keys:
                        seen_keys.add(ik)
                        ctx.instance("FRONT-EXHAUSTED", {"fn": origin(b, bb), "op": nm, "path_condition": guard[:200], "required": "%s <= %d" % (lf_text(goal), -gk),
                                                         "proven": proven, "site": "%s:%d" % (b.file, t["line"])})
                    if not proven:
                        ctx.violation("FRONT-EXHAUSTED", origin(b, bb), nm + "-guard",
                                      "%s removes the front chunk on a path whose conditions (%s) do not entail that it is exhausted (%s <= %d): after partial writes the unsent rest of "
                                      "the chunk is dropped, bytes never reach the tty" % (origin(b, bb), guard[:160], lf_text(goal), -gk), sites=["%s:%d" % (b.file, t["line"])])
                elif e[0] == "return" and not popped:
                    off = e[1]
                    if off == {OFFSET: 1}:
                        continue
                    # the chunk stays and offset moved: new offset < len(front)
                    goal = lf_add(off, {FRONT: 1}, -1)
                    gk = goal.pop("", 0)
                    proven = lf_implies(ev.cons, (goal, -1 - gk))
                    guard = " && ".join("%s <= %d" % (lf_text(f), c) for f, c in ev.cons) or "true"
                    site = "%s:%d" % (b.file, max([x[2] for x in ev.events if x[0] == "offset"] or [0]))
                    ik = (b0.path, "keep", guard, proven)
                    if ik not in seen_keys:
                        seen_keys.add(ik)
                        ctx.instance("FRONT-EXHAUSTED", {"fn": b0.path, "op": "offset advance, chunk kept", "path_condition": guard[:200],
                                                         "required": "%s <= %d" % (lf_text(goal), -1 - gk), "proven": proven, "site": site})
                    if not proven:
                        ctx.violation("FRONT-EXHAUSTED", b0.path, "keep-guard",
                                      "%s advances offset to %s and keeps the front chunk on a path whose conditions (%s) do not entail offset < len(front): the queue keeps an "
                                      "exhausted chunk (empty as_slice, poll spins / later bytes are delayed) or slices out of bounds" % (b0.path, lf_text(off), guard[:160]), sites=[site])
    if n_pop == 0:
        ctx.anchor("FRONT-EXHAUSTED", "IOQueue/pop_front", "no IOQueue method removes the front chunk: the consume path was not recognised")

    # ---------------- (b) WHO-CALLS -----------------------------------------------------------
    ctx.rule("WHO-WRITES-TTY", "bodies that can write to a file descriptor: only Tty::write, the waker closure; Tty::write only from poll's consume_with closure", floor=3)
    poll0 = prog.one(r"^<unix::UnixTerminal as terminal::Terminal>::poll$")
    if poll0 is None:
        ctx.anchor("WHO-WRITES-TTY", "UnixTerminal::poll")
        return
    # poll with its private helpers expanded; the IOQueue API, guard_io and the readiness tests are the anchors of the rules below
    POLL_KEEP = r"^common::IOQueue::|^unix::guard_io$|^unix::PollEvent::is_(readable|writable)$"
    poll = inl(prog, poll0.path, keep=POLL_KEEP)
    poll_family = family(poll)
    raw_writers = {}
    for b in prog.bodies:
        if not b.file.endswith(("unix.rs", "terminal.rs", "common.rs", "render.rs", "encoder.rs", "image.rs")):
            continue
        for bb, t in b.calls():
            g = (t["fn"].get("resolved_generics") or t["fn"].get("generics") or [""])
            tty_generic = call_matches(t, r"^std::io::Write::") and any(re.search(r"(^|[ &])unix::Tty$", x) for x in g[:1])
            if call_matches(t, r"^rustix::io::(write|pwrite|writev)") or call_matches(t, r"^<std::fs::File as std::io::Write>::write") or call_matches(t, r"^<unix::Tty as std::io::Write>::") or tty_generic:
                nm = callee_name(t)
                if tty_generic and nm != "<unix::Tty as std::io::Write>::write":
                    nm = "<unix::Tty as std::io::Write>::write (via %s)" % nm
                raw_writers.setdefault(b.path, []).append((nm, "%s:%d" % (b.file, t["line"])))
    allowed_raw = {
        "<unix::Tty as std::io::Write>::write": "the tty write primitive itself",
    }
    # the waker: whatever closure is handed to TerminalWaker::new (found by data flow, not by its closure number); private helpers
    # expanded into it write on its behalf (`hosts`)
    for wb in prog.bodies:
        if not (wb.file or "").endswith("unix.rs"):
            continue
        for bb, t in wb.calls():
            if call_matches(t, r"^terminal::TerminalWaker::new$") and t["args"]:
                d = value_def(wb, t["args"][0])
                if d and d[0] == "agg" and d[1].get("ak") == "closure":
                    allowed_raw[d[1]["def"]] = "waker: writes one byte to the self-pipe, not the tty (checked by C17)"
    tty_write_callers = []
    for path, sites in sorted(raw_writers.items()):
        for (callee, site) in sites:
            ctx.instance("WHO-WRITES-TTY", {"fn": path, "callee": callee, "site": site})
            if callee.startswith("<unix::Tty as std::io::Write>::write"):
                if "(via " in callee:
                    ctx.violation("WHO-WRITES-TTY", path, "Tty::write-loop",
                                  "the tty is written through %s: only the single-attempt Tty::write keeps the consumed amount equal to the bytes the kernel accepted" % callee, sites=[site])
                # a helper that is expanded into its only caller writes on behalf of that caller
                for h in sorted(hosts(prog, path)):
                    tty_write_callers.append(h)
                    b = prog.body(h)
                    if not (b and b.kind == "Closure" and b.closure_root in poll_family):
                        ctx.violation("WHO-WRITES-TTY", path, "Tty::write",
                                      "Tty::write is called outside the consume_with closure of UnixTerminal::poll: bytes can bypass or race the write queue", sites=[site])
            elif not all(h in allowed_raw for h in hosts(prog, path)):
                ctx.violation("WHO-WRITES-TTY", path, callee.split("::")[-1],
                              "raw write to a file descriptor outside the allowed set %s" % sorted(allowed_raw), sites=[site])
    if not tty_write_callers:
        ctx.anchor("WHO-WRITES-TTY", "Tty::write-caller", "no body calls <Tty as Write>::write: the delivery path was not recognised")
    # the closure must be the argument of consume_with on self.write_queue
    ctx.rule("CONSUME-WITH", "poll hands the tty-writing closure to IOQueue::consume_with on self.write_queue", floor=1)
    cw = [(bb, t) for bb, t in xcalls(poll) if call_matches(t, r"^common::IOQueue::consume_with$")]
    if len(cw) != 1:
        ctx.anchor("CONSUME-WITH", "poll/consume_with", "expected exactly one consume_with call in poll, found %d" % len(cw))
    else:
        bb, t = cw[0]
        recv = arg_place(poll, t, 0)
        ctx.instance("CONSUME-WITH", {"receiver": recv, "site": "%s:%d" % (poll.file, t["line"]), "in": origin(poll, bb)})
        if recv != "(*_1).write_queue":
            ctx.violation("CONSUME-WITH", poll.path, "receiver", "consume_with is not applied to self.write_queue but to %s" % recv, sites=["%s:%d" % (poll.file, t["line"])])
        cl_paths = set(tty_write_callers)
        d = value_def(poll, t["args"][1])
        if d and d[0] == "agg" and d[1].get("ak") == "closure":
            cdefs = {d[1]["def"]}
        else:
            # closure value not traced to one aggregate: any closure constructed in poll (or an expanded helper)
            cdefs = {s["rv"]["def"] for i, si, s in poll.assigns() if s["rv"]["k"] == "agg" and s["rv"]["ak"] == "closure"}
        if not (cl_paths & cdefs):
            ctx.violation("CONSUME-WITH", poll.path, "closure", "the closure calling Tty::write is not the one poll hands to consume_with", sites=[])

    # ---------------- (c) RETURNS-FROM --------------------------------------------------------
    ctx.rule("RETURNS-FROM", "amount consumed = value returned by the tty write (through guard_io(..,0) and `?` only)", floor=3)
    for path in sorted(set(tty_write_callers)):
        b = inl(prog, path, keep=r"^unix::guard_io$") if prog.body(path) is not None else None
        if b is None:
            continue
        # value returned in Ok(..) on normal path
        rets = []
        for i, si, s in b.assigns():
            if s["place"]["l"] == 0 and not s["place"]["p"]:
                rets.append((i, s))
        good = False
        for i, s in rets:
            rv = s["rv"]
            if rv["k"] == "agg" and rv.get("variant") == "Ok":
                og = origins(b, rv["fields"][0])
                ctx.instance("RETURNS-FROM", {"fn": path, "returned_value_origins": sorted(str(o) for o in og)})
                if all(o[0] == "call" and o[2] == "unix::guard_io" for o in og) and og:
                    good = True
                else:
                    ctx.violation("RETURNS-FROM", path, "Ok-value",
                                  "the closure's Ok value is not (only) the result of guard_io(tty.write(..)): origins %s" % sorted(map(str, og)),
                                  sites=["%s:%d" % (b.file, s["line"])])
        # guard_io's first arg must be result of Tty::write, second const 0
        for bb, t in b.calls():
            if call_matches(t, r"^unix::guard_io$"):
                og = origins(b, t["args"][0])
                other = const_int(b, t["args"][1])
                ctx.instance("RETURNS-FROM", {"fn": path, "guard_io_arg_origins": sorted(str(o) for o in og), "otherwise": other})
                if not (og and all(o[0] == "call" and o[2] == "<unix::Tty as std::io::Write>::write" for o in og)):
                    ctx.violation("RETURNS-FROM", path, "guard_io-source",
                                  "the byte count handed to guard_io is not the result of one Tty::write attempt (origins %s): a looping or mapped write hides partial progress when the tty returns EAGAIN, so delivered bytes are retransmitted" % sorted(map(str, og)),
                                  sites=["%s:%d" % (b.file, t["line"])])
                    continue
                if other != 0:
                    ctx.violation("RETURNS-FROM", path, "guard_io-otherwise",
                                  "EAGAIN/EINTR on the tty write must consume 0 bytes, found otherwise=%s" % other,
                                  sites=["%s:%d" % (b.file, t["line"])])
        if not good and not [v for v in ctx.violations if v.rule == "RETURNS-FROM"]:
            ctx.anchor("RETURNS-FROM", "closure-return", "could not find `Ok(size)` in the tty-writing closure")
    cwb = inl(prog, "common::IOQueue::consume_with", keep=r"^common::IOQueue::(consume|as_slice)$")
    if cwb is None:
        ctx.anchor("RETURNS-FROM", "IOQueue::consume_with")
    else:
        # the consume call: in consume_with itself, or in a closure of it that a Result combinator runs on the consumer's Ok value
        # (`consumer(..).map(|size| { self.consume(size); size })`, and_then / inspect / map_or.. alike)
        CONSUMER_RX = r"FnOnce::call_once$"
        COMBINATOR_RX = r"Result::<T, E>::(map|and_then|inspect|map_or|map_or_else|is_ok_and)$"
        cons = [(cwb, bb, t) for bb, t in cwb.calls() if call_matches(t, r"^common::IOQueue::consume$")]
        cw_closures = {}
        for cb0 in prog.bodies:
            if cb0.kind == "Closure" and cb0.closure_root in family(cwb):
                cb = inl(prog, cb0.path, keep=r"^common::IOQueue::(consume|as_slice)$") or cb0
                cw_closures[cb0.path] = cb
                cons += [(cb, bb, t) for bb, t in cb.calls() if call_matches(t, r"^common::IOQueue::consume$")]
        if len(cons) != 1:
            ctx.anchor("RETURNS-FROM", "consume_with/consume", "expected one consume call")
        else:
            cb, bb, t = cons[0]
            og = origins(cb, t["args"][1])
            if cb is not cwb:
                # inside a closure: the amount must be the closure's parameter, and the closure must be run by a Result combinator
                # on the consumer's result (only then on Ok, with the Ok value)
                fed = []
                for bb3, t3 in cwb.calls():
                    if not call_matches(t3, COMBINATOR_RX):
                        continue
                    for a in t3["args"][1:]:
                        d = value_def(cwb, a)
                        if d and d[0] == "agg" and d[1].get("ak") == "closure" and d[1]["def"] == cb.path:
                            fed.append(origins(cwb, t3["args"][0]))
                if og == {("arg", 2)} and len(fed) == 1:
                    og = fed[0]
                else:
                    og = {("closure", cb.path, str(sorted(map(str, og))))}
            ctx.instance("RETURNS-FROM", {"fn": cb.path, "consume_amount_origins": sorted(str(o) for o in og)})
            if not (og and all(o[0] == "call" and re.search(CONSUMER_RX, o[2]) for o in og)):
                ctx.violation("RETURNS-FROM", cwb.path, "consume-amount",
                              "consume() amount is not exactly the consumer's return value: %s" % sorted(map(str, og)),
                              sites=["%s:%d" % (cb.file, t["line"])])
            # and the slice handed to the consumer is as_slice() of self
            calls = [(bb2, t2) for bb2, t2 in cwb.calls() if call_matches(t2, r"FnOnce::call_once$")]
            for bb2, t2 in calls:
                # tuple arg
                og2 = set()
                d = value_def(cwb, t2["args"][1])
                if d and d[0] == "agg" and d[1]["ak"] == "tuple":
                    og2 |= origins(cwb, d[1]["fields"][0])
                ctx.instance("RETURNS-FROM", {"fn": cwb.path, "consumer_input_origins": sorted(str(o) for o in og2)})
                if not (og2 and all(o[0] == "call" and o[2] == "common::IOQueue::as_slice" for o in og2)):
                    ctx.violation("RETURNS-FROM", cwb.path, "consumer-input", "consumer is not given as_slice() of the queue: %s" % sorted(map(str, og2)), sites=["%s:%d" % (cwb.file, t2["line"])])

    # ---------------- (d) frames_drop ---------------------------------------------------------
    ctx.rule("FRONT-KEPT", "frames_drop -> IOQueue::clear_but_last; every removal there leaves chunk 0 in place (drain/truncate/split_off/remove from a constant index >= 1, "
                           "pop_back only while more than one chunk is queued) and the bytes subtracted from length are those of the removed tail", floor=2)
    fd0 = prog.one(r"^<unix::UnixTerminal as terminal::Terminal>::frames_drop$")
    cbl0 = prog.one(r"^common::IOQueue::clear_but_last$")
    if fd0 is None or cbl0 is None:
        ctx.anchor("FRONT-KEPT", "frames_drop/clear_but_last")
    else:
        fd = inl(prog, fd0.path, keep=r"^common::IOQueue::")
        qcalls = [(bb, t) for bb, t in fd.calls() if any(a.get("k") in ("copy", "move") and arg_place(fd, t, i) == "(*_1).write_queue" for i, a in enumerate(t["args"]))]
        names = [callee_name(t) for bb, t in qcalls]
        ctx.instance("FRONT-KEPT", {"fn": fd.path, "calls_on_write_queue": names})
        other = [n for n in names if n != "common::IOQueue::clear_but_last" and not re.search(r"^common::IOQueue::(is_empty|len|chunks_count|as_slice)$", n or "")]
        if "common::IOQueue::clear_but_last" not in names or other:
            ctx.violation("FRONT-KEPT", fd.path, "callee", "frames_drop must only call write_queue.clear_but_last()", sites=[fd.loc])
        cbl = inl(prog, cbl0.path)
        ccfg = cbl.cfg()
        n = 0
        removed_from = []
        for bb, t in cbl.calls():
            if call_matches(t, REMOVERS) and arg_place(cbl, t, 0) == "(*_1).chunks":
                n += 1
                nm = callee_name(t).split("::")[-1]
                ok, k = keeps_front(cbl, ccfg, bb, t, "arg1.chunks")
                removed_from.append((nm, k))
                ctx.instance("FRONT-KEPT", {"fn": origin(cbl, bb), "op": nm, "first_removed_index": k, "keeps_front": ok})
                if not ok:
                    ctx.violation("FRONT-KEPT", origin(cbl, bb), nm,
                                  "clear_but_last removes chunks with an operation that may drop the front chunk (the one in transmission)",
                                  sites=["%s:%d" % (cbl.file, t["line"])])
        if n == 0:
            ctx.anchor("FRONT-KEPT", "clear_but_last/removal", "no removal operation recognised in clear_but_last")
        # the amount taken off `length`: when it is a sum over a skipped prefix, the prefix is the part that stays
        for (i, si, rp, s) in writes_to_field(cbl, r"^\(\*_1\)\.length$"):
            if si == "term" or s["rv"]["k"] != "use":
                continue
            e = expr(cbl, s["rv"]["a"])
            m = re.search(r"Iterator::skip\(VecDeque::iter(?:_mut)?\(arg1\.chunks\), (\d+)\)", e)
            ks = {k for nm, k in removed_from if k is not None}
            if m and ks and int(m.group(1)) not in ks:
                ctx.violation("FRONT-KEPT", origin(cbl, i), "length-delta", "length is reduced by the bytes of chunks[%s..] but chunks[%s..] are removed" % (m.group(1), sorted(ks)[0]),
                              sites=["%s:%d" % (cbl.file, s["line"])])

    # ---------------- (d2) the queue object is never replaced ---------------------------------------
    ctx.rule("QUEUE-OWNER", "UnixTerminal.write_queue is initialised once (struct literal) and afterwards only borrowed for IOQueue/Write/handler calls: "
                            "never assigned, taken, swapped or replaced — queued bytes leave it only through consume_with and clear_but_last", floor=5)
    ALLOWED_Q = (r"^common::IOQueue::(is_empty|chunks_count|consume_with|clear_but_last|len|as_slice)$|^<common::IOQueue as std::io::Write>::(write|flush|write_all)$|"
                 r"^std::io::Write::(write_all|write_fmt|write|flush)$|^<.* as image::ImageHandler>::(draw|erase|handle)$|^image::ImageHandler::(draw|erase|handle)$|"
                 r"^<encoder::TTYEncoder as encoder::Encoder>::encode$|^encoder::Encoder::encode$")

    def ref_users(b, l, seen=None):
        """calls that receive the reference held in local l (through moves, reborrows, unsize coercions)"""
        seen = seen if seen is not None else set()
        if l in seen:
            return []
        seen.add(l)
        users = [(ub, t, k) for ub, t in b.calls() for k, a in enumerate(t["args"]) if a.get("k") in ("copy", "move") and a["place"]["l"] == l and not a["place"]["p"]]
        for bb2, si2, s2 in b.assigns():
            r2 = s2["rv"]
            nxt = None
            if r2["k"] == "ref" and r2["place"]["l"] == l and [e["k"] for e in r2["place"]["p"]] == ["deref"]:
                nxt = s2["place"]
            elif r2["k"] in ("cast", "use") and isinstance(r2.get("a"), dict) and r2["a"].get("k") in ("copy", "move") and r2["a"]["place"]["l"] == l and not r2["a"]["place"]["p"]:
                nxt = s2["place"]
            if nxt is not None and not nxt["p"]:
                users += ref_users(b, nxt["l"], seen)
        return users

    def param_only_borrowed(path, k, depth=0):
        """a crate-local helper that receives `&mut IOQueue` as argument k hands it on only to the allowed operations and never writes through it"""
        hb = prog.body(path)
        if hb is None or depth > 3 or k >= hb.arg_count:
            return False
        l = k + 1
        for bb, si, s in hb.assigns():
            pl = s["place"]
            if pl["l"] == l and [e["k"] for e in pl["p"]] == ["deref"]:
                return False        # *queue = ..
        for ub, t, ak in ref_users(hb, l):
            nm = callee_name(t) or "<indirect>"
            if re.search(ALLOWED_Q, nm):
                continue
            if (t["fn"].get("resolved_local") or t["fn"].get("local")) and param_only_borrowed(nm, ak, depth + 1):
                continue
            return False
        return True

    n_q = 0
    for b in prog.bodies:
        if not (b.file or "").endswith("unix.rs"):
            continue
        for bb, si, st_ in b.assigns():
            rp = resolve_place(b, st_["place"])
            if re.search(r"\.write_queue$", rp) and "UnixTerminal" in b.local_ty(st_["place"]["l"]):
                n_q += 1
                ctx.instance("QUEUE-OWNER", {"fn": b.path, "assignment": rp, "allowed": False})
                ctx.violation("QUEUE-OWNER", b.path, "assigned", "UnixTerminal.write_queue is overwritten: everything queued, including the unsent rest of the chunk in "
                              "transmission, is discarded (a frame is torn)", sites=["%s:%d" % (b.file, st_["line"])])
            rv = st_["rv"]
            if rv["k"] == "ref" and re.search(r"\.write_queue$", resolve_place(b, rv["place"])) and "UnixTerminal" in b.local_ty(rv["place"]["l"]) and not st_["place"]["p"]:
                for ub, t, ak in ref_users(b, st_["place"]["l"]):
                    n_q += 1
                    nm = callee_name(t) or "<indirect>"
                    ok = bool(re.search(ALLOWED_Q, nm)) or (not rv["mut"])
                    if not ok and (t["fn"].get("resolved_local") or t["fn"].get("local")) and prog.body(nm) is not None and not prog.body(nm).impl_trait:
                        ok = param_only_borrowed(nm, ak)
                    ctx.instance("QUEUE-OWNER", {"fn": b.path, "borrow_used_by": nm, "mutable": rv["mut"], "allowed": ok})
                    if not ok:
                        ctx.violation("QUEUE-OWNER", b.path, "borrowed-by-" + nm.split("::")[-1], "a mutable borrow of UnixTerminal.write_queue is handed to %s, which can replace or empty "
                                      "the queue (mem::take/replace/swap): the chunk in transmission would be discarded" % nm, sites=["%s:%d" % (b.file, t["line"])])

    # ---------------- (e) poll flush + loop condition -------------------------------------------
    ctx.rule("POLL-LOOP", "poll flushes write_queue before the loop; the loop is left from its condition only when write_queue is known to be empty", floor=2)
    cfg = poll.cfg()
    flush = [bb for bb, t in poll.calls() if (call_matches(t, r"^<common::IOQueue as std::io::Write>::flush$|^std::io::Write::flush$") and arg_place(poll, t, 0) == "(*_1).write_queue")
             or (call_matches(t, r"^<unix::UnixTerminal as std::io::Write>::flush$") and arg_place(poll, t, 0) == "(*_1)")]
    loops = cfg.loops()
    # the main loop: the loop containing the consume_with call
    main = None
    if cw:
        cand = [(len(body), h) for h, body in loops.items() if cw[0][0] in body]
        if cand:
            main = max(cand)[1]
    if main is None or not flush:
        ctx.anchor("POLL-LOOP", "poll/main-loop-or-flush", "main loop or flush call not recognised in poll")
    else:
        body = loops[main]
        ctx.instance("POLL-LOOP", {"flush_blocks": flush, "loop_header": main, "loop_size": len(body)})
        if not any(cfg.dominates(f, main) and f not in body for f in flush):
            ctx.violation("POLL-LOOP", poll.path, "flush-first", "write_queue.flush() does not dominate the poll loop: an unterminated chunk could be merged with later output or never sent", sites=[poll.loc])
        # The loop condition: the blocks reachable from the loop header before anything but a pure size getter is called.  Every way out of the loop
        # from there must take the "queue is empty" edge of a test on write_queue (is_empty / len / chunks_count in any comparison spelling,
        # either operand order of || / &&): while output is pending the body is entered whatever the event queue holds.
        SIZE = r"IOQueue::(len|chunks_count)\(arg1\.write_queue\)"
        empty_edges = set()
        tests = []
        for s in sorted(body):
            tt = poll.blocks[s]["term"]
            ed = bool_edges(tt)
            if ed is None:
                continue
            e = expr(poll, tt["d"])
            neg = False
            e2 = e
            while e2.startswith("Not(") and e2.endswith(")"):
                e2, neg = e2[4:-1], not neg
            if re.fullmatch(r"IOQueue::is_empty\(arg1\.write_queue\)", e2):
                empty_edges.add((s, ed[1] if neg else ed[0]))
                tests.append((s, e))
                continue
            st = size_test(e, SIZE)
            if st is not None:
                if st[1] == 0:
                    empty_edges.add((s, ed[0]))
                    tests.append((s, e))
                elif st[3] == 0:
                    empty_edges.add((s, ed[1]))
                    tests.append((s, e))
        leak = None
        seen = set()
        live = cfg.reaches(set(cfg.returns))      # `unreachable` arms of exhaustive switches are no way out
        st_ = [main]
        while st_ and leak is None:
            x = st_.pop()
            if x in seen:
                continue
            seen.add(x)
            tx = poll.blocks[x]["term"]
            if tx["k"] == "call" and not call_matches(tx, r"::(is_empty|len|chunks_count|is_some|is_none)$"):
                continue
            for y in cfg.succ[x]:
                if (x, y) in empty_edges or y not in live:
                    continue
                if y not in body:
                    leak = (x, y)
                    break
                st_.append(y)
        ctx.instance("POLL-LOOP", {"queue_emptiness_tests_in_loop": [e for s, e in tests], "condition_blocks": len(seen), "exit_with_pending_output": leak})
        if leak is not None or not tests:
            ctx.violation("POLL-LOOP", poll.path, "loop-cond", "the poll loop condition does not test write_queue.is_empty(): pending output may be left unsent when an event is already queued", sites=[poll.loc])
